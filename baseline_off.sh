#!/bin/bash
# Builds /repo with the verification guard OFF (the repository's own CMake build, tests included) in a
# scratch directory and runs the stable baseline.  Exit 0 iff all 36 stable tests pass.
set -u
HERE="$(cd "$(dirname "$0")" && pwd)"
REPO="${WENCRY_REPO:-/repo}"
B="$HERE/build/baseline-off"
rm -rf "$B"
mkdir -p "$B"
cmake -G Ninja -S "$REPO" -B "$B" -DCMAKE_BUILD_TYPE=Release >"$B/configure.log" 2>&1 || { tail -20 "$B/configure.log"; echo "BASELINE: configure failed"; exit 1; }
cmake --build "$B" -j16 >"$B/build.log" 2>&1 || { tail -40 "$B/build.log"; echo "BASELINE: build failed"; exit 1; }
# the suite shares test.txt in its working directory, so it is run the way the baseline was taken
(cd "$B" && ctest --test-dir "$B" -j8 --timeout 900 --output-junit "$B/junit.xml" >"$B/ctest.log" 2>&1)
python3 - "$B" <<'EOF'
import json, subprocess, sys, os, re
B = sys.argv[1]
stable = json.load(open('/root/.vp/BASELINE.json'))['stable_pass'] if os.path.exists('/root/.vp/BASELINE.json') else []
if not stable:
    stable = """TestCBC::TestCBC TestCBC::testCBC1 TestCBC::testCBC2 TestCBC::testCBC3 TestCFB::TestCFB TestCFB::testCFB1
TestCFB::testCFB2 TestCFB::testCFB3 TestCTR::TestCTR TestCTR::testCTR1 TestCTR::testCTR2 TestCTR::testCTR3 TestECB::TestECB
TestECB::testECB1 TestECB::testECB2 TestECB::testECB3 TestOFB::TestOFB TestOFB::testOFB1 TestOFB::testOFB2 TestOFB::testOFB3
Testaes::Testaes Testaes::testres Testaes::testround1 Testaes::testround2 Testbase64::Testbase64 Testbase64::testb64tohex
Testbase64::testhextob64 Testbase64::testround1 Testsha256::TNAME_1 Testsha256::TNAME_2 Testsha256::TNAME_4 Testsha256::TNAME_5
Testspeed::Testspeed Testspeed::testsp Testutest::Testutest Testutest::testhex""".split()
log = open(os.path.join(B, 'ctest.log')).read()
ctest_pass = set(re.findall(r'Test\s+#\d+:\s+(\S+)\s+\.+\s+Passed', log))
fails = []
gt_cache = {}
def gtest_case(exe, case):
    if exe not in gt_cache:
        p = os.path.join(B, 'test', exe)
        out = os.path.join(B, exe + '.gtest.json')
        subprocess.run([p, '--gtest_output=json:' + out], cwd=os.path.join(B, 'test'), stdout=subprocess.DEVNULL,
                       stderr=subprocess.DEVNULL, timeout=900)
        res = {}
        try:
            for ts in json.load(open(out)).get('testsuites', []):
                for t in ts.get('testsuite', []):
                    res[t['name']] = not t.get('failures')
        except Exception:
            pass
        gt_cache[exe] = res
    return gt_cache[exe].get(case, False)
for s in stable:
    exe, case = s.split('::')
    if exe == case:
        ok = exe in ctest_pass or all(gtest_case(exe, c) for c in [x.split('::')[1] for x in stable if x.startswith(exe + '::') and x.split('::')[1] != exe])
    else:
        ok = gtest_case(exe, case)
    if not ok:
        fails.append(s)
print("BASELINE: %d/%d stable tests pass" % (len(stable) - len(fails), len(stable)))
for f in fails:
    print("BASELINE-FAIL:", f)
sys.exit(1 if fails else 0)
EOF
rc=$?
rm -rf "$B"
exit $rc
