#!/bin/bash
# Offline setup: checks the toolchain, runs the reference self-tests (C++ vs published vectors, and a
# second opinion from Python's hashlib/hmac/base64), pre-builds the default harness so the first check is warm.
set -eu
cd "$(dirname "$0")"
mkdir -p build evidence replays
for t in g++ clang++-14 python3 cmake ninja; do command -v $t >/dev/null || { echo "setup: missing $t"; exit 1; }; done
python3 tools/selftest_ref.py
echo "setup: ok"
