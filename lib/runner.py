"""Sharded execution of a harness binary with crash / hang handling.

A shard is one process running cases back to back.  Before each case it rewrites <base>.progress with
"<index> <case json>".  If the process dies (signal, sanitizer abort) or stops making progress, the parent
records the case as a violation candidate, re-runs it ALONE in a fresh process (--only), and restarts the
shard after it.  A stall is only called a deadlock when every thread of the process is sleeping and the
process consumed no CPU between two samples; otherwise the watchdog result is 'inconclusive'."""
import json
import os
import re
import signal
import subprocess
import time

ASAN_OPTS = "abort_on_error=1:detect_leaks=0:new_delete_type_mismatch=0:allocator_may_return_null=1:" \
            "handle_abort=1:print_summary=1:max_allocation_size_mb=2048"
UBSAN_OPTS = "print_stacktrace=1:halt_on_error=1"


def base_env(extra=None):
    env = dict(os.environ)
    env["ASAN_OPTIONS"] = ASAN_OPTS
    env["UBSAN_OPTIONS"] = UBSAN_OPTS
    env.setdefault("TSAN_OPTIONS", "halt_on_error=0")
    if extra:
        env.update(extra)
    return env


def _cpu_ticks(pid):
    tot = 0
    states = []
    try:
        for t in os.listdir("/proc/%d/task" % pid):
            with open("/proc/%d/task/%s/stat" % (pid, t)) as f:
                s = f.read()
            rest = s[s.rindex(")") + 2:].split()
            states.append(rest[0])
            tot += int(rest[11]) + int(rest[12])
    except (OSError, ValueError):
        return None, []
    return tot, states


def logical_deadlock(pid, interval=1.0):
    """True iff all threads sleep and no CPU time was consumed across the interval."""
    a, sa = _cpu_ticks(pid)
    time.sleep(interval)
    b, sb = _cpu_ticks(pid)
    if a is None or b is None:
        return False
    return a == b and all(x in "SD" for x in sa + sb) and len(sb) >= 1


def classify_stderr(text):
    """Turn a sanitizer report / abort message into a stable key fragment."""
    # a report whose innermost source-level frame is harness code is a harness bug, not a finding
    fr = re.findall(r"#\d+ 0x[0-9a-f]+ in [^\n]*? (/[^\s:]+):\d+", text)
    fr = [p for p in fr if p.startswith("/repo/") or p.startswith("/verif/") or "/kernel/" in p or "/valget/" in p]
    # (the first stack of the report only: up to the first blank line after frame #0)
    first_stack = text[text.find("#0 "):] if "#0 " in text else text
    first_stack = first_stack.split("\n\n")[0]
    fr1 = re.findall(r"#\d+ 0x[0-9a-f]+ in [^\n]*? (/[^\s:]+):\d+", first_stack)
    product_on_stack = any(p.startswith("/repo/") or "/kernel/" in p or "/valget/" in p or p.endswith("/main.cpp") for p in fr1)
    if fr and fr[0].startswith("/verif/") and not product_on_stack:
        return "harness-bug@" + fr[0]
    m = re.search(r"ERROR: AddressSanitizer: ([A-Za-z0-9_-]+)", text)
    frame = ""
    fm = re.findall(r"#\d+ 0x[0-9a-f]+ in ([^\s(]+)[^\n]*?/repo/([^\s:]+)", text)
    if fm:
        frame = fm[0][0]
    if m:
        kind = m.group(1)
        if kind == "SEGV":
            kind = "SEGV"
        return "asan:%s@%s" % (kind, frame or "?")
    m = re.search(r"runtime error: ([^\n]+)", text)
    if m:
        msg = re.sub(r"0x[0-9a-f]+", "ADDR", m.group(1))
        msg = re.sub(r"-?\d+", "N", msg)[:80]
        return "ubsan:%s@%s" % (msg, frame or "?")
    if "ThreadSanitizer" in text:
        return "tsan"
    return ""


class ShardRun:
    def __init__(self, binary, args, workdir, nshards, env=None, stall_s=25.0, case_budget_s=None, log=print,
                 shard_args=None, max_failures=16, alone_timeout=12.0):
        self.binary = binary
        self.args = list(args)
        self.workdir = workdir
        self.nshards = nshards
        self.env = env or base_env()
        self.stall_s = stall_s
        self.log = log
        self.crashes = []       # dicts: idx, desc, kind, key, stderr
        self.inconclusive = []  # dicts
        self.summaries = []
        self.violations = []    # harness-reported (from .viol.jsonl)
        self.restarts = 0
        self.max_failures = max_failures
        self.alone_timeout = alone_timeout
        self.aborted_early = False

    def _base(self, i):
        return os.path.join(self.workdir, "s%d" % i)

    def _spawn(self, i, start):
        base = self._base(i)
        for suf in (".summary.json", ".progress"):
            try:
                os.unlink(base + suf)
            except OSError:
                pass
        cmd = [self.binary] + self.args + ["--shard", str(i), "--nshards", str(self.nshards), "--start", str(start),
                                           "--out", base]
        err = open(base + ".stderr", "ab")
        p = subprocess.Popen(cmd, stdout=subprocess.DEVNULL, stderr=err, env=self.env, cwd=self.workdir, start_new_session=True)
        err.close()
        return p

    def _progress(self, i):
        try:
            with open(self._base(i) + ".progress") as f:
                line = f.readline()
            sp = line.index(" ")
            return int(line[:sp]), line[sp + 1:].strip()
        except (OSError, ValueError):
            return None, None

    def run_alone(self, idx, timeout=None):
        """Re-run one case alone in a fresh process.  Returns dict(status, rc, stderr, viols)."""
        if timeout is None:
            timeout = self.alone_timeout
        base = os.path.join(self.workdir, "alone%d" % idx)
        for suf in (".summary.json", ".progress", ".viol.jsonl", ".stderr"):
            try:
                os.unlink(base + suf)
            except OSError:
                pass
        cmd = [self.binary] + self.args + ["--only", str(idx), "--out", base]
        err = open(base + ".stderr", "wb")
        p = subprocess.Popen(cmd, stdout=subprocess.DEVNULL, stderr=err, env=self.env, cwd=self.workdir, start_new_session=True)
        err.close()
        t0 = time.time()
        status = None
        while True:
            rc = p.poll()
            if rc is not None:
                status = "exit"
                break
            if time.time() - t0 > timeout:
                dl = logical_deadlock(p.pid)
                ticks, _ = _cpu_ticks(p.pid)
                cpu_s = (ticks or 0) / float(os.sysconf("SC_CLK_TCK"))
                # CPU time, not wall-clock: a case that needs milliseconds and has burnt a quarter of a generous budget in
                # CPU (it gets at least that share even on an oversubscribed machine) is looping
                status = "deadlock" if dl else ("cpu-loop" if cpu_s >= 0.25 * timeout else "timeout")
                kill_group(p)
                rc = None
                break
            time.sleep(0.05)
        stderr = open(base + ".stderr", errors="replace").read()
        viols = _read_viols(base + ".viol.jsonl")
        return dict(status=status, rc=rc, stderr=stderr, viols=viols)

    def run(self):
        procs = {}
        last = {}
        for i in range(self.nshards):
            procs[i] = self._spawn(i, 0)
            last[i] = (None, time.time())
        while procs:
            time.sleep(0.05)
            if self.restarts >= self.max_failures:
                # enough witnesses: stop instead of grinding through a tree that violates everywhere
                for p in procs.values():
                    kill_group(p)
                self.aborted_early = True
                break
            for i in list(procs):
                p = procs[i]
                rc = p.poll()
                idx, desc = self._progress(i)
                now = time.time()
                if rc is None:
                    if last[i][0] != idx:
                        last[i] = (idx, now)
                    elif now - last[i][1] > self.stall_s:
                        dl = logical_deadlock(p.pid)
                        kill_group(p)
                        self._handle_fail(i, idx, desc, "deadlock" if dl else "stall", None)
                        if idx is None:
                            del procs[i]
                        else:
                            procs[i] = self._spawn(i, idx + 1)
                            last[i] = (None, time.time())
                    continue
                if rc == 0 and os.path.exists(self._base(i) + ".summary.json"):
                    del procs[i]
                    continue
                # abnormal termination
                self._handle_fail(i, idx, desc, "exit", rc)
                if idx is None or rc == 2:
                    del procs[i]
                else:
                    procs[i] = self._spawn(i, idx + 1)
                    last[i] = (None, time.time())
        for i in range(self.nshards):
            try:
                with open(self._base(i) + ".summary.json") as f:
                    self.summaries.append(json.load(f))
            except (OSError, ValueError):
                pass
            self.violations += _read_viols(self._base(i) + ".viol.jsonl")

    def _handle_fail(self, i, idx, desc, how, rc):
        self.restarts += 1
        stderr = ""
        try:
            stderr = open(self._base(i) + ".stderr", errors="replace").read()[-20000:]
            os.truncate(self._base(i) + ".stderr", 0)
        except OSError:
            pass
        if rc == 2 or idx is None:
            self.crashes.append(dict(idx=idx, desc=desc, kind="harness", key="harness-failure", stderr=stderr, rc=rc))
            return
        # after a few confirmed witnesses of the same kind, further ones are recorded from the batch verdict
        # (keeps a check on a badly broken tree within minutes)
        confirmed = [c for c in self.crashes if c.get("batch_how") == how and c.get("kind") in ("deadlock", "crash", "cpu-loop")]
        if len(confirmed) >= (3 if how == "exit" else 1):
            kind = "deadlock" if how == "deadlock" else ("crash" if how == "exit" else ("cpu-loop" if confirmed[0].get("kind") == "cpu-loop" else None))
            if kind:
                self.crashes.append(dict(idx=idx, desc=desc, batch_how=how, batch_rc=rc, batch_stderr=stderr[-6000:], kind=kind,
                                         key=confirmed[0]["key"] if kind in ("deadlock", "cpu-loop") else (classify_stderr(stderr) or _sig(rc) or "exit%s" % rc),
                                         alone_status="not re-run (3 earlier witnesses confirmed alone)"))
                return
        # confirm alone in a fresh process
        alone = self.run_alone(idx)
        rec = dict(idx=idx, desc=desc, batch_how=how, batch_rc=rc, batch_stderr=stderr[-6000:],
                   alone_status=alone["status"], alone_rc=alone["rc"], alone_stderr=alone["stderr"][-6000:])
        if alone["status"] == "exit" and alone["rc"] == 0:
            if alone["viols"]:
                # reproduced as an ordinary harness-reported violation
                self.violations += alone["viols"]
                return
            # did not reproduce alone
            if how in ("stall",):
                rec["kind"] = "inconclusive"
                self.inconclusive.append(rec)
                return
            rec["kind"] = "batch-only"
            rec["key"] = "batch-only:" + (classify_stderr(stderr) or _sig(rc) or how)
            self.crashes.append(rec)
            return
        if alone["status"] == "deadlock" or (alone["status"] == "timeout" and how == "deadlock"):
            rec["kind"] = "deadlock"
            rec["key"] = "deadlock"
        elif alone["status"] == "cpu-loop":
            rec["kind"] = "cpu-loop"
            rec["key"] = "endless-loop-consuming-cpu"
        elif alone["status"] == "timeout":
            rec["kind"] = "inconclusive"
            self.inconclusive.append(rec)
            return
        else:
            rec["kind"] = "crash"
            rec["key"] = classify_stderr(alone["stderr"]) or _sig(alone["rc"]) or "exit%s" % alone["rc"]
        self.crashes.append(rec)


def kill_group(p):
    """Kills a shard together with every child it forked (per-case children would otherwise survive and spin)."""
    try:
        os.killpg(p.pid, signal.SIGKILL)
    except (OSError, ProcessLookupError):
        pass
    try:
        p.kill()
    except OSError:
        pass
    p.wait()


def _sig(rc):
    if rc is not None and rc < 0:
        try:
            return "signal:" + signal.Signals(-rc).name
        except ValueError:
            return "signal:%d" % -rc
    return ""


def _read_viols(path):
    out = []
    try:
        with open(path) as f:
            for line in f:
                line = line.strip()
                if line:
                    try:
                        out.append(json.loads(line))
                    except ValueError:
                        out.append(dict(key="unparseable", what=line[:200]))
    except OSError:
        pass
    return out


def merge_summaries(summaries):
    counters = {}
    distinct = {}
    samples = []
    for s in summaries:
        for k, v in s.get("counters", {}).items():
            if k.startswith("max_"):
                counters[k] = max(counters.get(k, v), v)
            else:
                counters[k] = counters.get(k, 0) + v
        for k, vals in s.get("distinct_sets", {}).items():
            distinct.setdefault(k, set()).update(vals)
        for x in s.get("samples", []):
            if len(samples) < 8:
                samples.append(x)
    return counters, {k: len(v) for k, v in distinct.items()}, samples
