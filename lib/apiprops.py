"""Checks decided by the in-process E-API harness (ASan+UBSan build of /repo's working tree)."""
import json
import os

from core import Check, HarnessFailure, log
import runner
import wbuild

API_SRCS = ["engines/api/main.cpp", "engines/api/c01_c02.cpp", "engines/api/c05_c06_c11_c12.cpp",
            "engines/api/c07_c08.cpp", "engines/api/c09_c10.cpp", "engines/api/c13.cpp", "engines/api/c15.cpp",
            "engines/api/c16.cpp", "engines/api/c18.cpp"]


def api_binary(san, buf_units, hbuf_units):
    defs = {}
    if buf_units:
        defs["WENCRY_VERIF_BUF_UNITS"] = str(buf_units)
    if hbuf_units:
        defs["WENCRY_VERIF_HBUF_UNITS"] = str(hbuf_units)
    srcs = [s for s in API_SRCS if os.path.exists(os.path.join(wbuild.VERIF, s))]
    name = "apih_%s_b%s_h%s" % (san, buf_units or "prod", hbuf_units or "prod")
    return wbuild.build(name, san, srcs, defines=defs, events=True, log=log)


def run_api(chk, prop, variants, san="asan", nshards=16, extra_args=None, stall_s=20.0, crash_is_violation=True):
    """variants: list of (buf_units, hbuf_units).  Returns (counters, distinct, samples)."""
    tot_c, tot_d, samples = {}, {}, []
    for (bu, hu) in variants:
        try:
            binary = api_binary(san, bu, hu)
        except wbuild.BuildError as e:
            raise HarnessFailure(str(e))
        wd = os.path.join(chk.workdir, "b%s_h%s" % (bu, hu))
        os.makedirs(wd, exist_ok=True)
        args = ["--prop", prop, "--tier", chk.tier, "--seed", str(chk.seed)] + list(extra_args or [])
        sr = runner.ShardRun(binary, args, wd, nshards, stall_s=stall_s, log=log, alone_timeout=max(12.0, stall_s))
        sr.run()
        vtag = "chunk=%dB,refill=%dB" % ((bu or 0x100000) * 16, (hu or 0x80000) * 64)
        for c in sr.crashes:
            if c.get("kind") == "harness" or "harness-bug@" in str(c.get("key")):
                raise HarnessFailure("harness failure in %s: %s" % (prop, (c.get("stderr") or "")[-2000:]))
            dj = _j(c.get("desc"))
            if prop == "C12" and c["kind"] in ("deadlock", "crash", "cpu-loop") and isinstance(dj, dict) and dj.get("verify_result") is True:
                # verification has ACCEPTED this file (recorded before decryption started) and decryption of the same
                # file with the same key did not succeed: it died or never returned
                how = "decrypt-hangs" if c["kind"] != "crash" else "decrypt-dies"
                chk.add_violation("C12|disagree|verify=1|%s|%s" % (how, dj.get("kind", "?")),
                                  "verification accepted a file on which decryption %s" % ("never returns" if c["kind"] != "crash" else "dies (%s)" % c["key"]),
                                  variant=vtag, case=c.get("idx"), case_desc=dj, stderr=c.get("alone_stderr") or c.get("batch_stderr"))
                continue
            if not crash_is_violation:
                # a crash / hang is outside this property's statement (it belongs to C11 / C04): the case is
                # not decided here, and is reported as such
                chk.inconclusive.append(dict(variant=vtag, case=c.get("idx"), desc=_j(c.get("desc")),
                                             how="%s (%s) while running the case: belongs to C11/C04, not decided by this property" % (c["kind"], c["key"])))
                continue
            if c.get("kind") == "batch-only" and prop in ("C01", "C02", "C05", "C06", "C11", "C12", "C13", "C18"):
                chk.inconclusive.append(dict(variant=vtag, case=c.get("idx"), desc=_j(c.get("desc")),
                                             how="crash only while cases ran back to back in one process (%s); alone in a fresh process the case is fine: history dependence belongs to C15" % c["key"]))
                continue
            chk.add_violation("%s|%s|%s" % (prop, c["kind"], c["key"]),
                              "%s while running a case (%s)" % (c["kind"], c["key"]), variant=vtag, case=c.get("idx"),
                              case_desc=_j(c.get("desc")), stderr=c.get("alone_stderr") or c.get("batch_stderr"),
                              batch_how=c.get("batch_how"), alone_status=c.get("alone_status"))
        # soundness rule 5: a violation seen while cases run back to back in one process must reproduce ALONE in a
        # fresh process; if it does not, it is history dependence (C15's business), not this property's
        by_key = {}
        for v in sr.violations:
            by_key.setdefault(v.get("key", "?"), []).append(v)
        for key, vs in by_key.items():
            # (only for the file-level operation properties, whose sequences C15 covers; for the component properties
            # C07-C10 and C16 a wrong result from a reused or earlier-used object IS a violation of that property)
            confirmed = prop not in ("C01", "C02", "C05", "C06", "C11", "C12", "C13", "C18")
            tried = 0
            for v in vs[:3]:
                if confirmed or v.get("case") is None or v.get("case", -1) < 0:
                    confirmed = True
                    break
                tried += 1
                alone = sr.run_alone(v["case"])
                if alone["status"] != "exit" or alone["rc"] != 0 or any(a.get("key") == key for a in alone["viols"]):
                    confirmed = True
                    break
            if confirmed:
                for v in vs:
                    chk.add_violation(key, v.get("what", ""), variant=vtag, case=v.get("case"), case_desc=v.get("case_desc"), detail=v.get("detail"))
            else:
                chk.inconclusive.append(dict(variant=vtag, key=key, count=len(vs), how="seen only while cases ran back to back in one process; %d witnesses re-run alone did not reproduce: history dependence belongs to C15" % tried))
        for inc in sr.inconclusive:
            chk.inconclusive.append(dict(variant=vtag, case=inc.get("idx"), desc=_j(inc.get("desc")), how=inc.get("batch_how")))
        if len(sr.summaries) < nshards and not sr.crashes and not sr.violations:
            raise HarnessFailure("only %d of %d shard summaries for %s" % (len(sr.summaries), nshards, prop))
        c, d, s = runner.merge_summaries(sr.summaries)
        for k, v in c.items():
            if k.startswith("max_"):
                tot_c[k] = max(tot_c.get(k, v), v)
            else:
                tot_c[k] = tot_c.get(k, 0) + v
        for k, v in d.items():
            tot_d[k] = tot_d.get(k, 0) + v
        for x in s:
            if len(samples) < 8:
                if isinstance(x, dict):
                    x = dict(x)
                    x["variant"] = vtag
                samples.append(x)
    return tot_c, tot_d, samples


def _j(s):
    if s is None:
        return None
    try:
        return json.loads(s)
    except (ValueError, TypeError):
        return s
