"""Per-property checks.  Each function returns the process exit code."""
import json
import os

from core import Check, HarnessFailure, log
import apiprops

REGISTRY = {}


def prop(pid):
    def deco(fn):
        REGISTRY[pid] = fn
        return fn
    return deco


ASSUME_API = [
    "OpenSSL libcrypto 3 is a correct implementation of AES-128/modes/SHA-1/MD5/SHA-256/HMAC (self-tested on published vectors at start-up)",
    "shrinking the chunk (WENCRY_VERIF_BUF_UNITS) and hash refill (WENCRY_VERIF_HBUF_UNITS) constants preserves behaviour up to scale",
    "in-memory FILE streams (fopencookie) behave like regular files for fread/fwrite/fseek/feof",
    "ASan/UBSan runtime (gcc 12); red-zone detectors miss non-adjacent and intra-object overflows",
]

QUICK_V = [(4, 4)]                       # chunk 64 B, hash refill 256 B
THOROUGH_V = [(1, 1), (2, 2), (3, 4), (4, 4), (8, 16), (64, 4)]


@prop("C01")
def c01(tier, seed):
    chk = Check("C01", tier, seed)
    chk.assumptions = ASSUME_API
    variants = QUICK_V if tier == "quick" else THOROUGH_V
    c, d, s = apiprops.run_api(chk, "C01", variants)
    extra = dict(counters=c, chunk_variants=["%dB" % (b * 16) for b, _ in variants])
    return chk.finish(c.get("decrypts", 0), d.get("class", 0),
                      "every plaintext length 0..5c+17 for chunk size c x cmode 0-4 x T set x hmode; a case is one "
                      "encrypt+decrypt round trip on real threads under ASan+UBSan; distinct = (n mod 16, n mod c, "
                      "chunks<T / =T / >T, cmode, hmode, T) classes with n>0 that round-tripped",
                      s, extra, min_evaluations=1000)


@prop("C02")
def c02(tier, seed):
    chk = Check("C02", tier, seed)
    chk.assumptions = ASSUME_API
    variants = QUICK_V if tier == "quick" else THOROUGH_V
    c, d, s = apiprops.run_api(chk, "C02", variants)
    extra = dict(counters=c, chunk_variants=["%dB" % (b * 16) for b, _ in variants])
    return chk.finish(c.get("files", 0), d.get("class", 0),
                      "every plaintext length 0..4c+17 x cmode x T set x hmode; each output compared byte for byte with "
                      "the OpenSSL-based reference of the documented format, plus length formula, determinism re-run, "
                      "plaintext-block scan and input-unmodified monitors; distinct = (cmode, hmode, T, chunks, n mod 16)",
                      s, extra, min_evaluations=1000)


def replay(rep):
    pid = rep.get("property")
    first = rep.get("first", {})
    log("replay of %s key=%s: re-running the %s tier with seed %s" % (pid, rep.get("key"), rep.get("tier"), rep.get("seed")))
    os.environ["VERIF_SEED"] = str(rep.get("seed", 1))
    fn = REGISTRY.get(pid)
    if not fn:
        return 2
    return fn(rep.get("tier", "quick"), int(rep.get("seed", 1)))
