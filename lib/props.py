"""Per-property checks.  Each function returns the process exit code."""
import json
import os

from core import Check, HarnessFailure, log
import apiprops

REGISTRY = {}


def _acc(tot, c):
    for k, v in c.items():
        if k.startswith("max_"):
            tot[k] = max(tot.get(k, v), v)
        else:
            tot[k] = tot.get(k, 0) + v


def prop(pid):
    def deco(fn):
        REGISTRY[pid] = fn
        return fn
    return deco


ASSUME_API = [
    "OpenSSL libcrypto 3 is a correct implementation of AES-128/modes/SHA-1/MD5/SHA-256/HMAC (self-tested on published vectors at start-up)",
    "shrinking the chunk (WENCRY_VERIF_BUF_UNITS) and hash refill (WENCRY_VERIF_HBUF_UNITS) constants preserves behaviour up to scale",
    "in-memory FILE streams (fopencookie) behave like regular files for fread/fwrite/fseek/feof",
    "ASan/UBSan runtime (gcc 12); red-zone detectors miss non-adjacent and intra-object overflows",
]

QUICK_V = [(4, 4)]                       # chunk 64 B, hash refill 256 B
THOROUGH_V = [(1, 1), (2, 2), (3, 4), (4, 4), (8, 16), (64, 4)]


@prop("C01")
def c01(tier, seed):
    chk = Check("C01", tier, seed)
    chk.assumptions = ASSUME_API
    variants = QUICK_V if tier == "quick" else THOROUGH_V
    c, d, s = apiprops.run_api(chk, "C01", variants)
    # production constants (16 MiB chunks, 32 MiB refill), optimised build, lengths around the real chunk size
    c2, d2, s2 = apiprops.run_api(chk, "C01", [(None, None)], san="fast", extra_args=["--sub", "prod"], stall_s=180.0)
    _acc(c, c2); _acc(d, d2); s = s + s2[:2]
    extra = dict(counters=c, chunk_variants=["%dB" % (b * 16) for b, _ in variants] + ["16MiB (production)"])
    return chk.finish(c.get("decrypts", 0), d.get("class", 0),
                      "every plaintext length 0..5c+17 for chunk size c x cmode 0-4 x T set x hmode; a case is one "
                      "encrypt+decrypt round trip on real threads under ASan+UBSan; distinct = (n mod 16, n mod c, "
                      "chunks<T / =T / >T, cmode, hmode, T) classes with n>0 that round-tripped",
                      s, extra, min_evaluations=1000)


@prop("C02")
def c02(tier, seed):
    chk = Check("C02", tier, seed)
    chk.assumptions = ASSUME_API
    variants = QUICK_V if tier == "quick" else THOROUGH_V
    c, d, s = apiprops.run_api(chk, "C02", variants)
    c2, d2, s2 = apiprops.run_api(chk, "C02", [(None, None)], san="fast", extra_args=["--sub", "prod"], stall_s=180.0)
    _acc(c, c2); _acc(d, d2); s = s + s2[:2]
    extra = dict(counters=c, chunk_variants=["%dB" % (b * 16) for b, _ in variants] + ["16MiB (production)"])
    return chk.finish(c.get("files", 0), d.get("class", 0),
                      "every plaintext length 0..4c+17 x cmode x T set x hmode; each output compared byte for byte with "
                      "the OpenSSL-based reference of the documented format, plus length formula, determinism re-run, "
                      "plaintext-block scan and input-unmodified monitors; distinct = (cmode, hmode, T, chunks, n mod 16)",
                      s, extra, min_evaluations=1000)


def replay(rep):
    pid = rep.get("property")
    first = rep.get("first", {})
    log("replay of %s key=%s: re-running the %s tier with seed %s" % (pid, rep.get("key"), rep.get("tier"), rep.get("seed")))
    os.environ["VERIF_SEED"] = str(rep.get("seed", 1))
    fn = REGISTRY.get(pid)
    if not fn:
        return 2
    return fn(rep.get("tier", "quick"), int(rep.get("seed", 1)))


def _simple_api(pid, tier, seed, evalkey, rule, min_eval, variants=None, distinct="class", level="exploration", exhaustive=None, san="asan", stall_s=20.0, crash_is_violation=True):
    chk = Check(pid, tier, seed, level=level)
    chk.assumptions = ASSUME_API
    variants = variants or (QUICK_V if tier == "quick" else [(4, 4), (1, 1), (8, 16)])
    c, d, s = apiprops.run_api(chk, pid, variants, san=san, stall_s=stall_s, crash_is_violation=crash_is_violation)
    extra = dict(counters=c, distinct_by_kind=d, chunk_variants=["chunk %dB / refill %dB" % (b * 16, h * 64) for b, h in variants])
    return chk.finish(c.get(evalkey, 0), d.get(distinct, 0), rule, s, extra, min_evaluations=min_eval, exhaustive=exhaustive)


@prop("C05")
def c05(tier, seed):
    return _simple_api("C05", tier, seed, "mutants",
                       "genuine files (cmode x hmode, T in {1,2,4}, n in {0,1,15,16,17,c-1,c,3c+5}) x every bit flip, byte set, "
                       "truncation, extension, 1/16-byte insertion and deletion at every offset, block/chunk/IV swaps, every "
                       "value of both mode bytes, randomised zero-fill, multi-edits; oracle: accepted => plaintext == original; "
                       "distinct = accepted-with-identical-plaintext (file, kind, offset) triples; rejected offsets counted separately",
                       20000, distinct="rejected_offsets", crash_is_violation=False)


@prop("C06")
def c06(tier, seed):
    return _simple_api("C06", tier, seed, "trials",
                       "genuine files x {all 128 one-bit neighbours, random keys, half-equal keys, zero/ff, rotations, "
                       "reversed, one byte zeroed}; oracle: verify false, decrypt false, zero writes on the output stream; "
                       "distinct = (file, key class, index) rejected without output", 2000, crash_is_violation=False)


@prop("C11")
def c11(tier, seed):
    chk = Check("C11", tier, seed)
    chk.assumptions = ASSUME_API
    variants = QUICK_V if tier == "quick" else [(4, 4), (1, 1), (8, 16)]
    c, d, s = apiprops.run_api(chk, "C11", variants)
    extra = dict(counters=c, distinct_by_kind=d, chunk_variants=["chunk %dB / refill %dB" % (b * 16, h * 64) for b, h in variants])
    if tier == "thorough":
        import fuzzprops
        extra["libfuzzer"] = fuzzprops.fuzz_c11(chk, 240)
    return chk.finish(c.get("inputs", 0) + extra.get("libfuzzer", {}).get("executions", 0), d.get("class", 0),
                      "tiny strings, random strings of every length 0..200, magic + every (mode byte pair) + random rest at "
                      "header-edge lengths, and all structural mutants of genuine files (truncation at every length, every value "
                      "of both mode bytes, randomised unauthenticated bytes...) through verify AND decrypt under ASan+UBSan; "
                      "oracle: no crash/hang/report, success only if independently authentic, no output on failure, output <= body; "
                      "thorough adds coverage-guided libFuzzer (16 jobs) on raw bytes and on genuine files with edited "
                      "unauthenticated bytes; distinct = (class, offset, arg, length)", s, extra, min_evaluations=20000)


@prop("C12")
def c12(tier, seed):
    return _simple_api("C12", tier, seed, "pairs",
                       "genuine (incl. chunk-boundary lengths), tampered, truncated, garbage and wrong-key inputs, each through "
                       "execute_verify and execute_decrypt; oracle: equal verdicts, verify writes nothing, no write reaches an "
                       "input stream; progress printer on/off and size argument {real, 0, 1} varied per case; a decrypt that dies or hangs after "
                       "verify accepted is a disagreement; distinct = (class, offset, arg, length, verdict)", 20000, crash_is_violation=False)


@prop("C07")
def c07(tier, seed):
    chk = Check("C07", tier, seed)
    chk.assumptions = ASSUME_API
    sweep_v = [(4, 4)] if tier == "quick" else [(4, 1), (4, 2), (4, 4), (4, 16)]
    C, D = {}, {}
    c, d, s = apiprops.run_api(chk, "C07", sweep_v, extra_args=["--sub", "sweep"])
    _acc(C, c); _acc(D, d)
    # production refill size and the 2^32-bit counter: optimised build, no size override
    # one case is one whole message: 2^29 bytes take seconds, the thorough 4 GiB stream takes minutes of CPU
    c2, d2, s2 = apiprops.run_api(chk, "C07", [(None, None)], san="fast", extra_args=["--sub", "large"],
                                  stall_s=120.0 if tier == "quick" else 1500.0)
    _acc(C, c2); _acc(D, d2)
    extra = dict(counters=C, distinct_by_kind=D, residues_mod_64_covered=D.get("residue", 0),
                 refill_variants=["%dB" % (h * 64) for _, h in sweep_v] + ["32MiB (production)"])
    return chk.finish(C.get("digests_compared", 0), D.get("class", 0),
                      "every message length 0..4R+130 for refill size R x {sha1, md5, sha256} x entry point {string, file "
                      "buffer, file buffer with 64-byte prefix block (the HMAC path), file positioned at a non-zero offset}, "
                      "contents random / zeros / 0xff / 0x80-terminated; plus production refill boundaries (32 MiB +-1, 64 MiB+63) "
                      "and synthetic streams of >= 2^29 bytes crossing the 2^32-bit counter; digests taken at the same time by independent "
                      "hasher objects on 2..6 threads; distinct = (alg, entry, len mod 64, "
                      "refills) classes whose digest equalled libcrypto's", s + s2, extra, min_evaluations=3000)


@prop("C08")
def c08(tier, seed):
    chk = Check("C08", tier, seed)
    chk.assumptions = ASSUME_API
    variants = QUICK_V if tier == "quick" else [(4, 4), (1, 1), (8, 16)]
    c, d, s = apiprops.run_api(chk, "C08", variants)
    c2, d2, s2 = apiprops.run_api(chk, "C08", [(None, None)], san="fast", extra_args=["--sub", "large"], stall_s=300.0)
    _acc(c, c2)
    d["class"] = d.get("class", 0) + d2.get("class", 0)
    extra = dict(counters=c, distinct_by_kind=d, chunk_variants=["chunk %dB / refill %dB" % (b * 16, h * 64) for b, h in variants] + ["production constants, span 2^29"])
    return chk.finish(c.get("hmacs_compared", 0), d.get("class", 0),
                      "messages of every length 0..600 (thorough 0..2100) x 3 hashes x start position {0,1,48,len} x keys "
                      "(random, all-zero, all-ff): gethmac vs RFC 2104 HMAC from libcrypto; cmphmac must accept the right tag and "
                      "reject single-bit variants (all 8*hlen bits on a subset) and multi-byte variants; one hmac object reused across "
                      "hash modes; independent hmac objects on 2..6 threads at the same time; "
                      "hash modes; generated files for T=1..16: tag at [10,10+hlen) == HMAC(key, file[48:]), zero fill to 48; spans of "
                      "2^29-64 (+57) bytes with production constants; distinct = (hash, inner length mod 64, position kind) and file classes",
                      s + s2[:2], extra, min_evaluations=5000)


@prop("C09")
def c09(tier, seed):
    chk = Check("C09", tier, seed)
    chk.assumptions = ASSUME_API
    c, d, s = apiprops.run_api(chk, "C09", [(4, 4)], san="asan" if tier == "quick" else "fast", stall_s=60.0)
    if tier == "quick":  # the optimised build without sanitizers adds blocks at unaligned addresses
        c2, d2, s2 = apiprops.run_api(chk, "C09", [(4, 4)], san="fast", stall_s=60.0)
        _acc(c, c2)
        d["class"] = max(d.get("class", 0), d2.get("class", 0))
    extra = dict(counters=c, tables_exhaustive=bool(c.get("tables_exhaustive")),
                 note="tables and the Gmul macro are recomputed exhaustively; the (key, block) space is sampled")
    return chk.finish(c.get("pairs_compared", 0), d.get("class", 0),
                      "FIPS-197 C.1; all single-bit keys/blocks; every byte value in every key and block position; random keys x 64 "
                      "blocks each (object reused and fresh), every pair encrypted, compared with libcrypto AES-128-ECB, decrypted "
                      "back, and the decryptor compared with libcrypto on independent data; s_box/rs_box/Logtable/Alogtable[0..492]/RC "
                      "and Gmul for all 256 values x 7 multipliers recomputed from GF(2^8) first principles; distinct = key/block sets",
                      s, extra, min_evaluations=100000)


@prop("C10")
def c10(tier, seed):
    chk = Check("C10", tier, seed)
    chk.assumptions = ASSUME_API
    C, D, S = {}, {}, []
    # ASan+UBSan build, and an optimised build without sanitizers in which blocks at unaligned addresses are also fed
    for san in ("asan", "fast"):
        c, d, s = apiprops.run_api(chk, "C10", [(4, 4)], san=san, stall_s=120.0 if tier == "quick" else 1500.0)
        _acc(C, c); _acc(D, d); S += s[:3]
    extra = dict(counters=C, distinct_by_kind=D, builds=["asan+ubsan", "fast -O2 (adds unaligned block addresses)"])
    return chk.finish(C.get("blocks_compared", 0), D.get("class", 0),
                      "SP 800-38A F.1-F.5 vectors; random keys/IVs with 0..300 blocks; IVs ending in 1..16 0xFF bytes, IV = 2^128-j, "
                      "low counter bytes about to wrap; all-zero plaintext; long streams past 2^16 (thorough: 2^24) blocks; blocks at "
                      "every address offset 1..15 (non-sanitizer build); invalid type numbers 5..255 must give NULL; every block "
                      "compared in lock-step with an EVP context and decrypted back by the matching decryptor object; distinct = "
                      "(mode, family, length, carry) classes", S, extra, min_evaluations=50000)


@prop("C13")
def c13(tier, seed):
    import killprops
    chk = Check("C13", tier, seed, level="fault_enumeration")
    chk.assumptions = ASSUME_API + ["crash model: process death = a byte prefix of the issue-ordered write stream applied to an empty file; reordering below the page cache is outside the statement"]
    variants = QUICK_V if tier == "quick" else [(4, 4), (1, 1), (8, 16)]
    c, d, s = apiprops.run_api(chk, "C13", variants, crash_is_violation=False)
    kill = killprops.kill_runs(chk, 2 if tier == "quick" else 12, seed)
    extra = dict(counters=c, distinct_by_kind=d, os_level_sigkill_runs=kill,
                 chunk_variants=["chunk %dB / refill %dB" % (b * 16, h * 64) for b, h in variants])
    return chk.finish(c.get("crash_states", 0) + kill["partial_files_checked"], d.get("class", 0),
                      "cases = cmode x hmode x T in {1,2,4} x n in {0,1,16,c,2c+3} (quick: every 3rd, rotating with the seed) x stdio "
                      "buffering {unbuffered, 16, 4096}; for each case the complete (offset,len,payload) write sequence is captured "
                      "below stdio and EVERY byte-prefix of it is rebuilt as a file and given to execute_verify and execute_decrypt; "
                      "oracle: accepted => state == complete file; exhaustive over crash points within each case; plus real SIGKILLs of "
                      "the CLI at every write(2) to the output (strace injection), partial file must be rejected by -v and -d; "
                      "distinct = cases",
                      s, extra, min_evaluations=2000, exhaustive=True)


@prop("C16")
def c16(tier, seed):
    chk = Check("C16", tier, seed)
    chk.assumptions = ASSUME_API
    c, d, s = apiprops.run_api(chk, "C16", [(4, 4)], stall_s=60.0)
    ev = sum(c.get(k, 0) for k in ("enc_groups", "enc_tails", "random_strings", "dec_groups", "dec_tails",
                                   "validator_candidates", "printed_keys", "k_path_runs"))
    ex = tier == "thorough"
    extra = dict(counters=c, exhaustive_parts=("all 2^24 3-byte groups, all 64^4 symbol groups, all 1/2-byte tails, all padded tails"
                                               if ex else "all 1/2-byte tails and padded tails; groups sampled 1/16 and 1/8"))
    return chk.finish(ev, d.get("class", 0),
                      "encoder: 3-byte groups (thorough: all 2^24), all 1- and 2-byte tails, random strings of every length 0..100 "
                      "with canary-checked extent and NUL; decoder: 4-symbol groups (thorough: all 64^4), all padded tails, inverse of "
                      "the encoder; validator: every single-byte substitution (24x256), insertions/deletions, every placement of 0-4 "
                      "'=' in the last 6 positions, random placements, lengths 0..40, every 22nd symbol, vs MUST-ACCEPT (canonical "
                      "16-byte encodings) / MUST-REJECT / DON'T-CARE (non-canonical pad bits) classes, accepted strings decoded into a "
                      "canary buffer; printed keys round-trip; the real -k parser path under ASan; distinct = distinct candidates/groups",
                      s, extra, min_evaluations=100000)


@prop("C18")
def c18(tier, seed):
    chk = Check("C18", tier, seed)
    chk.assumptions = ASSUME_API
    variants = [(4, 4)] if tier == "quick" else [(1, 4), (4, 4)]
    c, d, s = apiprops.run_api(chk, "C18", variants, crash_is_violation=False)
    # one stream longer than 2^24 blocks (what a 256 MiB share of a file is to one worker): optimised build
    c2, d2, s2 = apiprops.run_api(chk, "C18", [(4, 4)], san="fast", extra_args=["--sub", "long"], stall_s=300.0,
                                  crash_is_violation=False)
    _acc(c, c2)
    d["class"] = d.get("class", 0) + d2.get("class", 0)
    extra = dict(counters=c, distinct_by_kind=d, chunk_variants=["chunk %dB / refill %dB" % (b * 16, h * 64) for b, h in variants],
                 long_streams=dict(streams=c2.get("long_streams", 0), blocks_each=c2.get("keystream_blocks_checked", 0) // max(1, c2.get("long_streams", 0))))
    return chk.finish(c.get("files", 0), d.get("class", 0),
                      "T = 2..16 x non-ECB modes x {random, all-chunks-equal} plaintexts of 2T+1 chunks x seeds; for every stream the IV "
                      "it really started from is recovered from (key, P, C) with the reference block cipher; monitors: pairwise "
                      "distinct stream IVs, distinct header slots, all slots and the used IV change when one seed bit changes, no "
                      "keystream block used twice (CTR/OFB), equal plaintext chunks never give equal ciphertext chunks; every "
                      "violating observation carries a cause signature; plus CTR/OFB mode objects driven for 2^24+8192 blocks of "
                      "zero plaintext (random IVs and IVs about to carry): the first 4096 keystream blocks never return, Brent "
                      "cycle search, distances 2^8 and 2^16; distinct = (T, mode, plaintext kind, seed index) + long streams",
                      s + s2[:2], extra, min_evaluations=500)


@prop("C15")
def c15(tier, seed):
    chk = Check("C15", tier, seed)
    chk.assumptions = ASSUME_API + ["the fresh-process oracle is a child forked from a driver that has never run product code"]
    C, D, S = {}, {}, []
    # ASan+UBSan build (fills fresh heap memory with a pattern) and a plain build (fresh heap is zero, recycled heap is
    # not): state leaking through recycled memory only differs between a sequence and a fresh process in the latter
    for san in ("asan", "plain"):
        c, d, s = apiprops.run_api(chk, "C15", [(4, 4)], san=san, stall_s=120.0)
        _acc(C, c); _acc(D, d); S += s[:3]
    extra = dict(counters=C, distinct_by_kind=D, builds=["asan+ubsan", "plain -O1"])
    return chk.finish(C.get("operations", 0), D.get("class", 0),
                      "random sequences (length 2..40) over 16 operation kinds - API encrypt (echo on/off), decrypt/verify of genuine, "
                      "boundary-length, wrong-key, tampered, truncated, garbage, empty and wrong-mode files, and the getopt path "
                      "(encrypt/decrypt/verify/parse failures) - with T, modes and sizes varying between consecutive operations; each "
                      "operation's (result, output hash) in the one-process run is compared with the same operation executed alone in a "
                      "fresh process image; after every operation the live-buffer counter must be 0 and every buffer-group set-up "
                      "event must show turn==0/over==false; run under an ASan+UBSan build and under a plain build; distinct = (kind, "
                      "previous kind, position) classes", S, extra, min_evaluations=3000)


import schedprops  # noqa: E402
import cliprops  # noqa: E402


def _sched_plan(tier, main_grid_count, term_count):
    if tier == "quick":
        return [(1, "mix", main_grid_count), (2, "mix", main_grid_count // 2), (1, "term", term_count), (4, "term", term_count // 2)]
    return [(1, "mix", main_grid_count), (2, "mix", main_grid_count), (4, "mix", main_grid_count // 2),
            (1, "term", term_count), (2, "term", term_count), (4, "term", term_count)]


@prop("C03")
def c03(tier, seed):
    plan = _sched_plan(tier, 12000 if tier == "quick" else 400000, 3000 if tier == "quick" else 100000)
    chk, agg, extra = schedprops.sched_check("C03", tier, seed, plan, "", 0)
    extra["real_threads_under_tsan"] = _tsan_part(chk, "C03", tier)
    if tier == "thorough":
        extra["production_constants_oversubscribed"] = cliprops.prod_oversubscribed(chk, seed, 64)
    return chk.finish(agg.n, len(agg.sigs),
                      "each evaluation is one seeded schedule of the real pipeline (forced-include scheduler; strategies uniform / "
                      "sticky 0,50,90 / PCT depth 1-3 / starve-one-thread, optional spurious wake-ups) on inputs of 0-6 chunks incl. exact "
                      "multiples and T > chunks, T in {1,2,3,4,8} (termination grid: T 1-16); oracles: real ciphers -> output == "
                      "OpenSSL reference (encrypt) / == plaintext (decrypt); tagging cipher streams -> every block id exactly once, by "
                      "stream (chunk index mod T), per-stream order, at its own output offset; distinct = distinct (kind, n, T, schedule "
                      "signature) where the signature hashes the sequence of scheduling choices",
                      agg.samples, extra, min_evaluations=2000)


@prop("C04")
def c04(tier, seed):
    plan = _sched_plan(tier, 8000 if tier == "quick" else 300000, 8000 if tier == "quick" else 300000)
    chk, agg, extra = schedprops.sched_check("C04", tier, seed, plan, "", 0)
    extra["real_threads_logical_deadlock_detector"] = _tsan_part(chk, "C04", tier)
    extra["restatement"] = ("termination decided in bounded form: (a) no explored schedule reaches 'no runnable thread while one is "
                            "unfinished' (exact under the scheduler), (b) every operation ends within the step bound (%d steps observed "
                            "at most; bound 400000 quick / 2000000 thorough), (c) a CPU-time bound catches loops that contain no "
                            "synchronisation; unbounded 'eventually' is not decidable from finite runs" % agg.max_steps)
    return chk.finish(agg.n, len(agg.sigs),
                      "schedules as for C03 plus the termination grid (every length with n mod c in [c-17, c+1] around 0, c, 2c; T 1-16; "
                      "encrypt, decrypt, verify and both tagging directions; spurious wake-ups on in about a third); verdicts: "
                      "deadlock = enabled set empty with an unfinished thread; step bound; CPU-time bound; final state: all buffers INV, "
                      "live counter 0; distinct = distinct (kind, n, T, schedule signature)",
                      agg.samples, extra, min_evaluations=2000)


def _tsan_part(chk, pid, tier):
    """Adds the real-thread ThreadSanitizer runs to check `chk`; returns evidence dict."""
    count = 320 if tier == "quick" else 12000
    plans = [(1, count // 2), (4, count // 2)]
    ev = dict(executions=0, reports_in_chunk_buffers=0, reports_out_of_scope=0, out_of_scope_sites={}, delay_injected_events=0)
    for bu, cnt in plans:
        c, d, s, viols, sr = schedprops.run_tsan(chk, bu, cnt)
        ev["executions"] += c.get("executions", 0)
        ev["reports_in_chunk_buffers"] += c.get("tsan_reports_in_scope", 0)
        ev["reports_out_of_scope"] += c.get("tsan_reports_out_of_scope", 0) + c.get("tsan_reports_other_types", 0)
        ev["delay_injected_events"] += c.get("hook_events_with_delay_injection", 0)
        for v in viols:
            key = v.get("key", "")
            if key.startswith("TSAN-OUT-OF-SCOPE"):
                k = schedprops.tsan_sites_key(v)
                ev["out_of_scope_sites"][k] = ev["out_of_scope_sites"].get(k, 0) + 1
            elif key.startswith("C14|") and pid == "C14":
                chk.add_violation("C14|tsan|race-in-chunk-buffer|" + schedprops.tsan_sites_key(v), v.get("what"), case=v.get("case_desc"),
                                  detail=v.get("detail"), variant="chunk=%dB real threads" % (bu * 16))
            elif key.startswith("C03|") and pid == "C03":
                chk.add_violation(key, v.get("what"), case=v.get("case_desc"), variant="chunk=%dB real threads under TSan" % (bu * 16))
        for cr in sr.crashes:
            ev.setdefault("abnormal_real_thread_runs", {})
            ev["abnormal_real_thread_runs"][cr.get("kind", "?")] = ev["abnormal_real_thread_runs"].get(cr.get("kind", "?"), 0) + 1
            wanted = ("crash", "deadlock", "batch-only") if pid in ("C03", "C04") else ()
            if cr.get("kind") in wanted:
                chk.add_violation("%s|real-threads|%s|%s" % (pid, cr["kind"], cr["key"]), "%s on real threads with injected delays" % cr["kind"],
                                  case=cr.get("desc"), stderr=(cr.get("alone_stderr") or cr.get("batch_stderr") or "")[-3000:])
        for inc in sr.inconclusive:
            chk.inconclusive.append(dict(case=inc.get("desc"), how="tsan run stalled, not reproduced alone"))
    return ev


@prop("C14")
def c14(tier, seed):
    plan = _sched_plan(tier, 10000 if tier == "quick" else 300000, 3000 if tier == "quick" else 100000)
    chk, agg, extra = schedprops.sched_check("C14", tier, seed, plan, "", 0)
    extra["tsan"] = _tsan_part(chk, "C14", tier)
    if extra["tsan"]["executions"] < 100 and not chk.violations:
        raise HarnessFailure("too few ThreadSanitizer executions")
    return chk.finish(agg.n + extra["tsan"]["executions"], len(agg.sigs),
                      "(b) every explored schedule (as C03/C04) is replayed through an ownership state machine over the hook events: "
                      "worker looks / hand-outs / transforms only while its buffer is READY, I/O loads / exports / state changes only "
                      "while EMPTY or UPDATING, legal transitions only, chunk k to buffer k mod T, blocks handed out and transformed in "
                      "file order, every loaded chunk exported before reload; (a) real-thread executions under ThreadSanitizer with "
                      "seeded delay injection at the hook points, reports classified by address: inside a chunk buffer = violation, "
                      "elsewhere = logged out-of-scope; distinct = distinct (kind, n, T, schedule signature)",
                      agg.samples, extra, min_evaluations=2000)


import cliprops  # noqa: E402


@prop("C17")
def c17(tier, seed):
    return cliprops.c17(tier, seed)
