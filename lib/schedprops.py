"""C03 / C04 / C14 via the seeded cooperative scheduler (E-SCHED) and ThreadSanitizer (E-TSAN)."""
import json
import os
import subprocess
import time

from core import Check, HarnessFailure, log
import runner
import wbuild

SCHED_SRCS = ["engines/sched/harness.cpp", "engines/sched/nofi_sched.cpp"]


def sched_binary(buf_units):
    defs = {"WENCRY_VERIF_BUF_UNITS": str(buf_units), "WENCRY_VERIF_HBUF_UNITS": "4"}
    try:
        return wbuild.build("schedh_b%d" % buf_units, "plain", SCHED_SRCS, defines=defs, events=True,
                            force_include="hooks/vsync_sched.h", log=log)
    except wbuild.BuildError as e:
        raise HarnessFailure(str(e))


def run_sched(chk, buf_units, grid, count, nshards=16):
    """Runs `count` schedules; returns list of (case, result) dicts."""
    binary = sched_binary(buf_units)
    wd = os.path.join(chk.workdir, "sched_b%d_%s" % (buf_units, grid))
    os.makedirs(wd, exist_ok=True)
    procs = []
    for i in range(nshards):
        base = os.path.join(wd, "s%d" % i)
        cmd = [binary, "--seed", str(chk.seed), "--tier", chk.tier, "--grid", grid, "--count", str(count),
               "--shard", str(i), "--nshards", str(nshards), "--out", base]
        err = open(base + ".stderr", "wb")
        procs.append((subprocess.Popen(cmd, stdout=subprocess.DEVNULL, stderr=err, cwd=wd), base))
        err.close()
    out = []
    for p, base in procs:
        rc = p.wait()
        if rc != 0:
            raise HarnessFailure("sched harness shard failed rc=%s: %s" % (rc, open(base + ".stderr", errors="replace").read()[-2000:]))
        with open(base + ".results.jsonl") as f:
            for line in f:
                line = line.strip()
                if not line:
                    continue
                try:
                    rec = json.loads(line)
                    if rec.get("aborted_early"):
                        chk.coverage["shards_stopped_early_after_12_abnormal_schedules"] = chk.coverage.get("shards_stopped_early_after_12_abnormal_schedules", 0) + 1
                        continue
                    out.append(rec)
                except ValueError:
                    raise HarnessFailure("unparseable result line: %s" % line[:300])
    return out


class SchedAgg:
    """Aggregates per-schedule results and turns them into per-property violations."""

    def __init__(self):
        self.n = 0
        self.status = {}
        self.sigs = set()
        self.max_steps = 0
        self.events = 0
        self.kind_count = None
        self.trans = [0] * 16
        self.counters = {}
        self.samples = []
        self.by_kind = {}
        self.classes = set()
        self.with_choice = 0

    def add(self, rec):
        c, r = rec["case"], rec["result"]
        self.n += 1
        st = r.get("status", "?")
        self.status[st] = self.status.get(st, 0) + 1
        self.by_kind[c["kind"]] = self.by_kind.get(c["kind"], 0) + 1
        if "sig" in r:
            self.sigs.add((c["kind"], c["n"], c["T"], r["sig"]))
        if r.get("choices", 0) > 0:
            self.with_choice += 1
        self.max_steps = max(self.max_steps, r.get("steps", 0))
        if st == "ok":
            self.events += r.get("events", 0)
            kc = r.get("kind_count")
            if kc:
                if self.kind_count is None:
                    self.kind_count = [0] * len(kc)
                for i, v in enumerate(kc):
                    self.kind_count[i] += v
            for i, v in enumerate(r.get("trans", [])):
                self.trans[i] += v
            for k in ("handouts", "transforms", "loads", "exports", "transitions", "windows", "groups", "looks_before_first_ready"):
                self.counters[k] = self.counters.get(k, 0) + r.get(k, 0)
            self.classes.add((c["kind"], c["n"], c["T"], c["strategy"], c["spurious"] > 0))
        if len(self.samples) < 5 and self.n % 997 == 1:
            self.samples.append(dict(case=c, status=st, steps=r.get("steps"), signature=r.get("sig"), events=r.get("events")))


KIND_NAMES = ["", "SETUP_BUF", "SETUP_CTRL", "SETUP_STATE", "TEARDOWN", "LOAD_BEGIN", "LOAD_TOTAL", "LOAD_END", "EXPORT_BEGIN",
              "EXPORT_END", "WAIT_READY_BEGIN", "WAIT_READY_END", "WAIT_UPDATE_BEGIN", "WAIT_UPDATE_END", "SET_READY", "SET_UPDATE",
              "GET_FIRST", "GET_AFTER_WAIT", "UPDATE_TURN", "RUNCRY_BEGIN", "RUNCRY_END", "WORKER_EXIT", "IO_DONE"]
STATE = ["EMPTY", "UPDATING", "READY", "INV"]


def classify(pid, rec, chk, variant):
    """Adds violations for property pid from one schedule result."""
    c, r = rec["case"], rec["result"]
    st = r.get("status", "?")
    where = "%s|T%s" % (c["kind"], "1" if c["T"] == 1 else "n")
    if st == "watchdog":
        chk.inconclusive.append(dict(case=c, how="wall-clock watchdog (not a verdict)"))
        return
    if st in ("deadlock", "step-bound-exceeded", "cpu-bound-exceeded"):
        if pid == "C04":
            chk.add_violation("C04|%s|%s" % (st, c["kind"]), "the pipeline did not terminate under an explored schedule (%s)" % st,
                              case=c, variant=variant, detail=r)
        elif pid == "C03":
            # no output to judge; termination is C04's business, but the schedule is reported as not decided
            chk.coverage.setdefault("schedules_without_output_verdict", 0)
            chk.coverage["schedules_without_output_verdict"] += 1
        elif pid == "C14":
            # ownership is judged on the part of the run that happened ("buffer not INV at the end" is termination's business)
            for f in r.get("monitor_findings", []):
                if f["rule"] in ("buffer-not-INV-when-io-thread-finished", "chunk-never-exported"):
                    continue
                chk.add_violation("C14|%s" % f["rule"], "ownership monitor (run that did not terminate): %s" % f["rule"], case=c,
                                  variant=variant, detail=f.get("detail"), signature=r.get("sig"))
        return
    if st.startswith("signal:") or st.startswith("exit:"):
        chk.add_violation("%s|abnormal-termination|%s|%s" % (pid, st, c["kind"]),
                          "the operation crashed under an explored schedule (%s)" % st, case=c, variant=variant, detail=r)
        return
    if st != "ok":
        raise HarnessFailure("unknown schedule status %r" % st)
    if pid == "C03":
        for f in r.get("output_findings", []):
            chk.add_violation("C03|%s|%s" % (f["rule"], c["kind"]), "schedule-dependent or wrong output: %s" % f["rule"], case=c,
                              variant=variant, detail=f.get("detail"), signature=r.get("sig"))
    elif pid == "C04":
        if not r.get("ret", True):
            pass
        if not r.get("all_inv_at_exit", True):
            chk.add_violation("C04|buffers-not-INV-at-exit|%s" % c["kind"], "the I/O thread finished while a buffer was still live", case=c,
                              variant=variant, detail=[f for f in r.get("monitor_findings", []) if "INV" in f["rule"]])
        if r.get("haslive_at_teardown") or r.get("haslive_now"):
            chk.add_violation("C04|live-counter-nonzero-at-exit|%s" % c["kind"], "live-buffer counter not zero after the operation returned",
                              case=c, variant=variant)
    elif pid == "C14":
        for f in r.get("monitor_findings", []):
            chk.add_violation("C14|%s" % f["rule"], "ownership monitor: %s" % f["rule"], case=c, variant=variant, detail=f.get("detail"),
                              signature=r.get("sig"))


def sched_check(pid, tier, seed, plan, rule, min_eval):
    chk = Check(pid, tier, seed)
    chk.assumptions = [
        "the cooperative scheduler models std::mutex / std::condition_variable / std::thread exactly (a notify moves current waiters only; only the explicitly enabled spurious wake-ups are invented); switches happen only at synchronisation operations and hook events",
        "random exploration of schedules: no exhaustiveness over interleavings is claimed",
        "OpenSSL libcrypto 3 as reference for the real-cipher output oracle",
        "chunk size shrunk through hook H1 (16/32/64 bytes) so that many hand-overs happen in short runs",
    ]
    agg = SchedAgg()
    for (bu, grid, count) in plan:
        recs = run_sched(chk, bu, grid, count)
        variant = "chunk=%dB grid=%s" % (bu * 16, grid)
        for rec in recs:
            agg.add(rec)
            classify(pid, rec, chk, variant)
    kc = {}
    if agg.kind_count:
        for i, v in enumerate(agg.kind_count):
            if i < len(KIND_NAMES) and KIND_NAMES[i]:
                kc[KIND_NAMES[i]] = v
    trans = {}
    for a in range(4):
        for b in range(4):
            if agg.trans[a * 4 + b]:
                trans["%s->%s" % (STATE[a], STATE[b])] = agg.trans[a * 4 + b]
    extra = dict(schedules=agg.n, distinct_schedule_signatures=len(agg.sigs), schedules_with_a_real_choice=agg.with_choice,
                 status_histogram=agg.status, max_steps=agg.max_steps, by_kind=agg.by_kind, events_checked=agg.events,
                 hook_point_hits=kc, transitions_by_kind=trans, monitor_counters=agg.counters,
                 plan=[dict(chunk=bu * 16, grid=g, schedules=n) for bu, g, n in plan])
    return chk, agg, extra


def tsan_binary(buf_units):
    defs = {"WENCRY_VERIF_BUF_UNITS": str(buf_units), "WENCRY_VERIF_HBUF_UNITS": "4"}
    try:
        return wbuild.build("tsanh_b%d" % buf_units, "tsan", ["engines/tsan/harness.cpp"], defines=defs, events=True, log=log)
    except wbuild.BuildError as e:
        raise HarnessFailure(str(e))


def run_tsan(chk, buf_units, count, nshards=16):
    """Real threads under ThreadSanitizer.  Returns (counters, distinct, samples, violations list)."""
    binary = tsan_binary(buf_units)
    wd = os.path.join(chk.workdir, "tsan_b%d" % buf_units)
    os.makedirs(wd, exist_ok=True)
    env = runner.base_env({"TSAN_OPTIONS": "halt_on_error=0:exitcode=0:report_signal_unsafe=0:second_deadlock_stack=1"})
    args = ["--prop", "TSAN", "--tier", chk.tier, "--seed", str(chk.seed), "--count", str(count)]
    sr = runner.ShardRun(binary, args, wd, nshards, env=env, stall_s=15.0, log=log, max_failures=10, alone_timeout=10.0)
    sr.run()
    for c in sr.crashes:
        if c.get("kind") == "harness" or "harness-bug@" in str(c.get("key")):
            raise HarnessFailure("tsan harness failure: %s" % (c.get("stderr") or c.get("alone_stderr") or "")[-2000:])
    c, d, s = runner.merge_summaries(sr.summaries)
    # symbolise the program counters of race reports (offsets from the executable start)
    sym = {}

    def symb(pc):
        if pc not in sym:
            try:
                o = subprocess.run(["addr2line", "-f", "-C", "-e", binary, hex(int(pc))], capture_output=True, text=True, timeout=20).stdout.split("\n")
                sym[pc] = "%s (%s)" % (o[0], os.path.basename(o[1]) if len(o) > 1 else "?")
            except Exception:
                sym[pc] = hex(int(pc))
        return sym[pc]

    viols = []
    for v in sr.violations:
        det = v.get("detail") or {}
        if isinstance(det, dict) and "pc0" in det:
            det["site0"] = symb(det["pc0"])
            det["site1"] = symb(det["pc1"])
        viols.append(v)
    return c, d, s, viols, sr


def tsan_sites_key(v):
    det = v.get("detail") or {}
    a, b = sorted([str(det.get("site0", "?")), str(det.get("site1", "?"))])
    return "%s <-> %s" % (a, b)
