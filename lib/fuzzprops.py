"""C11 thorough tier: coverage-guided fuzzing (clang libFuzzer + ASan + UBSan) of verify/decrypt."""
import glob
import os
import re
import shutil
import subprocess

from core import HarnessFailure, log
import runner
import wbuild


def fuzz_c11(chk, seconds, jobs=16):
    try:
        binary = wbuild.build("fuzz_c11", "fuzz", ["engines/fuzz/fuzz_c11.cpp"],
                              defines={"WENCRY_VERIF_BUF_UNITS": "4", "WENCRY_VERIF_HBUF_UNITS": "4"}, log=log)
    except wbuild.BuildError as e:
        raise HarnessFailure(str(e))
    wd = os.path.join(chk.workdir, "fuzz")
    os.makedirs(os.path.join(wd, "corpus"), exist_ok=True)
    # a few structured seeds so that both input shapes are reached at once
    for i in range(8):
        with open(os.path.join(wd, "corpus", "seed%d" % i), "wb") as f:
            f.write(bytes([(i * 37 + j) & 255 for j in range(16)]) + bytes([i, i]) + bytes([i % 5, i % 3, 20 + i, 2]) + bytes(range(40)))
    env = runner.base_env()
    env["ASAN_OPTIONS"] = env["ASAN_OPTIONS"] + ":quarantine_size_mb=8"
    cmd = [binary, "-max_total_time=%d" % seconds, "-max_len=600", "-timeout=40", "-rss_limit_mb=4096", "-jobs=%d" % jobs,
           "-workers=%d" % jobs, "-print_final_stats=1", "-seed=%d" % (chk.seed + 1), "corpus"]
    r = subprocess.run(cmd, cwd=wd, capture_output=True, text=True, env=env, timeout=seconds * 3 + 600)
    execs = 0
    for lg in glob.glob(os.path.join(wd, "fuzz-*.log")):
        t = open(lg, errors="replace").read()
        m = re.findall(r"stat::number_of_executed_units:\s+(\d+)", t)
        if m:
            execs += int(m[-1])
    arts = sorted(glob.glob(os.path.join(wd, "crash-*")) + glob.glob(os.path.join(wd, "timeout-*")) + glob.glob(os.path.join(wd, "oom-*")))
    ev = dict(seconds=seconds, jobs=jobs, executions=execs, corpus_files=len(os.listdir(os.path.join(wd, "corpus"))), artifacts=len(arts))
    os.makedirs(os.path.join(wbuild.VERIF, "replays"), exist_ok=True)
    for a in arts[:10]:
        # re-run the artifact alone for a clean report
        rr = subprocess.run([binary, a], cwd=wd, capture_output=True, text=True, env=env, timeout=300)
        err = rr.stderr[-6000:]
        m = re.search(r"C11-ORACLE: (\S+)", err)
        key = "oracle:" + m.group(1) if m else (runner.classify_stderr(err) or os.path.basename(a).split("-")[0])
        keep = os.path.join(wbuild.VERIF, "replays", "C11-fuzz-" + os.path.basename(a))
        shutil.copy(a, keep)
        chk.add_violation("C11|fuzz|%s" % key, "libFuzzer artifact: %s" % key, artifact=keep, input_hex=open(a, "rb").read()[:300].hex(), stderr=err,
                          reproduce="%s %s" % (binary, keep))
    if execs < 1000 and not arts:
        raise HarnessFailure("fuzzer executed only %d inputs: %s" % (execs, r.stderr[-1500:]))
    return ev
