"""C13 (OS tie-in): the real CLI encryption is killed with SIGKILL at the N-th write(2) to its output file
(strace fault injection); the file left behind must be rejected by `-v` and `-d`."""
import base64
import os
import random
import re
import shutil
import subprocess

from core import HarnessFailure, log
import cliprops
import runner


def kill_runs(chk, nfiles, seed):
    plain_bin = cliprops.cli_binary("plain")
    asan_bin = cliprops.cli_binary("asan")
    env = runner.base_env()
    rnd = random.Random(seed * 31337 + 3)
    root = os.path.join(chk.workdir, "kill")
    os.makedirs(root, exist_ok=True)
    ev = dict(files=0, kill_points=0, killed_by_sigkill=0, partial_files_checked=0, accepted_partial=0, samples=[])
    for fi in range(nfiles):
        wd = os.path.join(root, "f%d" % fi)
        os.makedirs(wd, exist_ok=True)
        n = rnd.choice([1, 4000, 9000, 20000, 70000])
        data = bytes(rnd.randrange(256) for _ in range(min(n, 1009))) * (n // 1009 + 1)
        data = data[:n]
        key = bytes(rnd.randrange(256) for _ in range(16))
        k64 = base64.b64encode(key).decode()
        cm, hm = rnd.randrange(5), rnd.randrange(3)
        with open(os.path.join(wd, "F"), "wb") as f:
            f.write(data)
        out = os.path.join(wd, "O")
        base = ["strace", "-f", "-o", os.path.join(wd, "st.log"), "-e", "trace=write", "-P", out]
        args = [plain_bin, "-e", "-i", "F", "-o", out, "-k", k64, "--cmode", str(cm), "--hmode", str(hm), "-n"]
        try:
            r = subprocess.run(base + args, cwd=wd, capture_output=True, timeout=120)
            W = len(re.findall(r"write\(\d+, ", open(os.path.join(wd, "st.log")).read())) if r.returncode == 0 else 0
        except (OSError, subprocess.TimeoutExpired) as e:
            r, W = None, 0
        if W < 2:
            # ptrace may be unavailable in some sandboxes: the OS tie-in is then skipped (the in-process enumeration
            # above is the deciding part), and the evidence says so
            ev["skipped"] = "strace could not trace the CLI here (%s)" % ((r.stderr[-200:].decode("latin1") if r is not None else "not runnable"))
            shutil.rmtree(wd, ignore_errors=True)
            return ev
        ev["files"] += 1
        for N in range(1, W + 1):
            try:
                os.unlink(out)
            except OSError:
                pass
            r = subprocess.run(base + ["-e", "inject=write:signal=KILL:when=%d" % N] + args, cwd=wd, capture_output=True, timeout=120)
            st = open(os.path.join(wd, "st.log")).read()
            ev["kill_points"] += 1
            if "killed by SIGKILL" not in st:
                chk.inconclusive.append(dict(how="injection did not fire", N=N, W=W))
                continue
            ev["killed_by_sigkill"] += 1
            size = os.path.getsize(out) if os.path.exists(out) else 0
            rv = subprocess.run([asan_bin, "-v", "-i", out, "-k", k64, "-n"], cwd=wd, capture_output=True, env=env, timeout=120)
            rd = subprocess.run([asan_bin, "-d", "-i", out, "-o", os.path.join(wd, "D"), "-k", k64, "-n"], cwd=wd, capture_output=True, env=env, timeout=120)
            ev["partial_files_checked"] += 1
            if rv.returncode == 0 or rd.returncode == 0:
                ev["accepted_partial"] += 1
                chk.add_violation("C13|os-kill|partial-file-accepted|%s" % ("last-write" if N == W else "earlier-write"),
                                  "encryption killed by SIGKILL at write %d of %d left a file that verifies/decrypts" % (N, W),
                                  n=n, cmode=cm, hmode=hm, kill_at_write=N, writes=W, partial_size=size, rc_verify=rv.returncode, rc_decrypt=rd.returncode)
            if len(ev["samples"]) < 3:
                ev["samples"].append(dict(n=n, cmode=cm, hmode=hm, kill_at_write=N, writes=W, partial_size=size, rc_verify=rv.returncode, rc_decrypt=rd.returncode))
        shutil.rmtree(wd, ignore_errors=True)
    return ev
