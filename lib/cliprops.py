"""C17: the real Wencry binary (ASan+UBSan build of /repo's working tree, production constants) driven by grids of
argument vectors; effect-based oracle computed with the independent reference tool."""
import base64
import os
import random
import re
import shutil
import signal
import subprocess
import time
from concurrent.futures import ThreadPoolExecutor

from core import Check, HarnessFailure, log
import runner
import wbuild

CHUNK = 0x1000000
T_CLI = 4


def cli_binary(san="asan"):
    try:
        return wbuild.build("wencry_%s" % san, san, [], with_main=True, libs=("-lpthread",), log=log)
    except wbuild.BuildError as e:
        raise HarnessFailure(str(e))


def reftool():
    try:
        return wbuild.build("reftool", "plain", ["engines/ref/reftool.cpp"], repo_srcs=[])
    except wbuild.BuildError as e:
        raise HarnessFailure(str(e))


def b64key(k):
    return base64.b64encode(k).decode()


def key_class(s):
    """must_accept / must_reject / dontcare for a -k argument, per C16."""
    alpha = set("ABCDEFGHIJKLMNOPQRSTUVWXYZabcdefghijklmnopqrstuvwxyz0123456789+/")
    if len(s) != 24 or s[22:] != "==" or any(c not in alpha for c in s[:22]):
        return "must_reject"
    v = "ABCDEFGHIJKLMNOPQRSTUVWXYZabcdefghijklmnopqrstuvwxyz0123456789+/".index(s[21])
    return "dontcare" if (v & 15) else "must_accept"


class Vec:
    def __init__(self):
        self.modes = []        # list of mode flags as given
        self.opts = []         # list of (name, value-or-None) in order
        self.expect = "normal"  # normal | must_fail | dontcare | must_succeed
        self.why = ""
        self.files = {}        # relative path -> bytes (created before the run)
        self.dirs = []
        self.plain = None      # expected plaintext for -d / content for -e
        self.key = None        # 16 raw bytes if a usable key is given
        self.infile = None
        self.outfile = None
        self.cell = ""

    def argv(self):
        a = list(self.modes)
        for n, v in self.opts:
            a.append(n)
            if v is not None:
                a.append(v)
        return a


LONG = {"-e": "--encode", "-d": "--decode", "-v": "--verify", "-V": "--version", "-h": "--help", "-i": "--input",
        "-o": "--output", "-k": "--key", "-n": "--no_echo"}


def gen_vector(rnd, rt, workdir, mk_wenc):
    """Builds one random argument vector with its expectation.  Pairwise-ish: every option's value class is drawn
    independently, so all pairs appear with a few hundred vectors."""
    v = Vec()
    # two profiles: "tame" vectors are valid except for (usually) one option, so that successful operations and
    # single-cause failures are exercised as much as piles of errors
    tame = rnd.random() < 0.6
    _choice = rnd.choice

    def pick(lst, valid="valid"):
        if tame and valid in lst and rnd.random() < 0.85:
            return valid
        return _choice(lst)
    mode_choice = pick(["e"] * 6 + ["d"] * 6 + ["v"] * 5 + ["none", "V", "h", "ed", "dv", "ee", "eV"], valid="zz")
    if tame and rnd.random() < 0.9:
        mode_choice = _choice(["e", "d", "v"])
    modes = {"e": ["-e"], "d": ["-d"], "v": ["-v"], "none": [], "V": ["-V"], "h": ["-h"], "ed": ["-e", "-d"], "dv": ["-d", "-v"],
             "ee": ["-e", "-e"], "eV": ["-e", "-V"]}[mode_choice]
    v.modes = [LONG[m] if rnd.random() < 0.3 else m for m in modes]
    op = mode_choice if mode_choice in ("e", "d", "v") else None
    fails = []
    dont = []
    if mode_choice == "none":
        fails.append("no mode")
    if len(modes) > 1:
        fails.append("two modes")
    key = bytes(rnd.randrange(256) for _ in range(16))
    n = rnd.choice([0, 1, 15, 16, 17, 100, 1000, 5000, 70000])
    plain = bytes(rnd.randrange(256) for _ in range(min(n, 64))) * (n // 64 + 1)
    plain = plain[:n]
    cmode, hmode = rnd.randrange(5), rnd.randrange(3)
    # ---- -i
    icls = pick(["valid"] * 8 + ["absent", "missing", "dir", "empty", "long100", "long123", "long200", "long1000", "long4000",
                                 "long4085", "long4090", "long4091", "long4093", "long4095", "long4096", "long5000"])
    inpath = None
    if icls != "absent":
        name = "in.bin"
        if icls.startswith("long"):
            L = int(icls[4:])
            # real nested directories; the RELATIVE path handed to the program is exactly L characters long (the
            # kernel's PATH_MAX applies to the string passed to open(), the program runs with cwd = the scratch dir)
            parts = []
            rem = L
            while rem > 0:
                k = min(200, rem)
                if rem - k == 1:      # never leave a lone separator
                    k -= 1
                parts.append("p" * k)
                rem -= k + 1
            name = "/".join(parts)
            assert len(name) == L, (len(name), L)
        inpath = name
        if icls == "missing":
            pass
        elif icls == "dir":
            v.dirs.append(name)
        else:
            if op in ("d", "v") or (op is None and rnd.random() < 0.5):
                content = mk_wenc(plain, key, cmode, hmode) if icls != "empty" else b""
            else:
                content = plain if icls != "empty" else b""
            if icls == "empty":
                plain = b""
            v.files[name] = content
        v.opts.append(("-i", name))
    v.infile = inpath
    total_in = len(inpath) if inpath else 0
    in_openable = inpath is not None and icls not in ("missing",) and total_in < 4096
    if total_in >= 4096:
        # the file cannot even be created; do not try
        v.files.pop(inpath, None)
    if op and not in_openable:
        fails.append("input missing / unopenable")
    if icls == "dir":
        dont.append("input is a directory")
    # ---- -o
    ocls = pick(["valid"] * 6 + ["absent"] * 3 + ["baddir", "devfull", "devnull", "devzero"])
    if ocls == "valid":
        v.opts.append(("-o", "out.bin"))
        v.outfile = "out.bin"
    elif ocls == "baddir":
        v.opts.append(("-o", "no_such_dir/out.bin"))
        v.outfile = "no_such_dir/out.bin"
        fails.append("output unopenable")  # -o is opened while parsing, whatever the mode
    elif ocls in ("devfull", "devnull", "devzero"):
        dev = {"devfull": "/dev/full", "devnull": "/dev/null", "devzero": "/dev/zero"}[ocls]
        v.opts.append(("-o", dev))
        v.outfile = dev
        if op == "e":
            fails.append("output is not a regular file")   # the tag pass must read the output back
        elif op == "d" and ocls == "devfull" and len(plain) > 0:
            fails.append("output device rejects writes (ENOSPC)")
        else:
            dont.append("device file as output")
    else:
        if op == "d":
            fails.append("-d without -o")
        if op == "e" and inpath:
            v.outfile = inpath + ".wenc"
            comp = os.path.basename(v.outfile)
            if len(comp) > 255 or len(v.outfile) >= 4096:
                fails.append("default output name too long")
    # ---- -k
    kcls = pick(["valid"] * 7 + ["absent"] * 3 + ["wrong", "len23", "len25", "len20", "len28", "len280", "len25pad", "len26pad", "len27pad", "highbit", "badchar", "pad0", "pad1", "pad3", "empty"])
    ks = b64key(key)
    if kcls == "absent":
        if op in ("d", "v"):
            fails.append("-%s without -k" % op)
        v.key = None
    else:
        if kcls == "valid":
            v.key = key
        elif kcls == "wrong":
            k2 = bytearray(key)
            k2[rnd.randrange(16)] ^= 1 << rnd.randrange(8)
            ks = b64key(bytes(k2))
            v.key = bytes(k2)
        elif kcls == "len23":
            ks = ks[:23]
        elif kcls == "len25":
            ks = ks + "A"
        elif kcls == "len20":
            ks = ks[:18] + "=="
        elif kcls == "len28":
            ks = ks[:22] + "AAAA=="
        elif kcls == "len280":
            ks = ks + "A" * 256
        elif kcls in ("len25pad", "len26pad", "len27pad"):
            ks = ks[:22] + "A" * (int(kcls[3:5]) - 24) + "=="
        elif kcls == "highbit":
            p = rnd.randrange(22)
            # a raw byte >= 0x80 whose low 7 bits are a base64 symbol; surrogateescape makes it reach argv as one byte
            ks = (ks[:p].encode() + b"\xc1" + ks[p + 1:].encode()).decode("utf-8", "surrogateescape")
        elif kcls == "badchar":
            p = rnd.randrange(22)
            ks = ks[:p] + rnd.choice("!@#$%^&*()_-. ") + ks[p + 1:]
        elif kcls == "pad0":
            ks = ks[:22] + "AA"
        elif kcls == "pad1":
            ks = ks[:22] + "A="
        elif kcls == "pad3":
            ks = ks[:21] + "==="
        elif kcls == "empty":
            ks = ""
        kc = key_class(ks)
        if kc == "must_reject":
            fails.append("malformed key")
            v.key = None
        elif kc == "dontcare":
            dont.append("non-canonical key")
        v.opts.append(("-k", ks))
    # ---- modes
    for name, valid_hi in (("--cmode", 4), ("--hmode", 2)):
        c = pick(["absent"] * 5 + ["valid"] * 5 + ["5", "9", "127", "255", "256", "260", "1000", "258", "-1", "abc", "3"])
        if c == "absent":
            continue
        if c == "valid":
            val = str(cmode if name == "--cmode" else hmode)
        else:
            val = c
        if val.lstrip("-").isdigit():
            iv = int(val)
            if iv > valid_hi:
                fails.append("%s out of range" % name)
            elif iv < 0:
                dont.append("negative mode number")
            elif op == "e" and c != "valid":
                if name == "--cmode":
                    cmode = iv
                else:
                    hmode = iv
        else:
            dont.append("non-numeric mode")
        v.opts.append((name, val))
    if rnd.random() < 0.4:
        v.opts.append(("-n", None))
    x = rnd.random() * (4.0 if tame else 1.0)
    if x < 0.04:
        v.opts.append((rnd.choice(["--bogus", "-x", "--inptu"]), None))
        fails.append("unknown option")
    elif x < 0.07:
        v.opts.append((rnd.choice(["-i", "-o", "-k", "--cmode"]), None))  # missing option argument at the end
        fails.append("missing option argument")
    elif x < 0.10:
        v.opts.append(("stray_positional", None))
        dont.append("stray positional")
    elif x < 0.13 and inpath:
        v.opts.append(("-i", inpath))
        dont.append("duplicate -i")
    rnd.shuffle(v.opts) if rnd.random() < 0.5 and not any(o[0] in ("-i", "-o", "-k", "--cmode") and o[1] is None for o in v.opts) else None
    v.opts = [(LONG.get(nm, nm) if (rnd.random() < 0.3 and nm in LONG) else nm, val) for nm, val in v.opts]
    v.plain = plain
    if mode_choice in ("V", "h") and not fails:
        v.expect = "must_succeed" if not v.opts else "dontcare"
    elif fails:
        v.expect = "must_fail"
        v.why = "; ".join(fails)
    elif dont or op is None:
        v.expect = "dontcare"
        v.why = "; ".join(dont)
    else:
        v.expect = "normal"
    v.op = op
    v.cell = "%s|i=%s|o=%s|k=%s" % (mode_choice, icls, ocls, kcls)
    return v


def _mk_rel(wd, rel, content=None):
    """Creates rel (directories, and a file if content is not None) below wd step by step with dir_fd, so that the
    ABSOLUTE path may exceed PATH_MAX while the relative one does not."""
    parts = rel.split("/")
    dirs = parts if content is None else parts[:-1]
    fd = os.open(wd, os.O_RDONLY | os.O_DIRECTORY)
    try:
        for comp in dirs:
            try:
                os.mkdir(comp, dir_fd=fd)
            except FileExistsError:
                pass
            nfd = os.open(comp, os.O_RDONLY | os.O_DIRECTORY, dir_fd=fd)
            os.close(fd)
            fd = nfd
        if content is not None:
            ffd = os.open(parts[-1], os.O_WRONLY | os.O_CREAT | os.O_TRUNC, 0o644, dir_fd=fd)
            with os.fdopen(ffd, "wb") as f:
                f.write(content)
    finally:
        os.close(fd)


def prepare(v, wd):
    os.makedirs(wd, exist_ok=True)
    try:
        for d in v.dirs:
            _mk_rel(wd, d)
        for rel, content in v.files.items():
            _mk_rel(wd, rel, content)
    except OSError:
        return False
    return True


def run_one(binary, v, wd, env, timeout=45.0):
    t0 = time.time()
    p = subprocess.Popen([binary] + v.argv(), cwd=wd, stdin=subprocess.DEVNULL, stdout=subprocess.PIPE, stderr=subprocess.PIPE, env=env)
    try:
        out, err = p.communicate(timeout=timeout)
        status = "exit"
    except subprocess.TimeoutExpired:
        dl = runner.logical_deadlock(p.pid)
        ticks, _ = runner._cpu_ticks(p.pid)
        cpu_s = (ticks or 0) / float(os.sysconf("SC_CLK_TCK"))
        p.kill()
        out, err = p.communicate()
        # CPU time, not wall-clock: these invocations need well under a second of CPU
        status = "deadlock" if dl else ("cpu-loop" if cpu_s >= 0.6 * timeout else "timeout")
    return dict(status=status, rc=p.returncode, out=out.decode("latin1"), err=err.decode("latin1"), wall=time.time() - t0)


def _read_rel(wd, rel):
    fd = os.open(wd, os.O_RDONLY | os.O_DIRECTORY)
    try:
        parts = rel.split("/")
        for comp in parts[:-1]:
            nfd = os.open(comp, os.O_RDONLY | os.O_DIRECTORY, dir_fd=fd)
            os.close(fd)
            fd = nfd
        ffd = os.open(parts[-1], os.O_RDONLY, dir_fd=fd)
        with os.fdopen(ffd, "rb") as f:
            return f.read()
    finally:
        os.close(fd)


def effect(rt, v, wd, res):
    """Did the requested operation actually happen?  Computed with the reference, never with /repo code."""
    if v.op == "e":
        if not v.outfile:
            return False, "no output path"
        try:
            data = _read_rel(wd, v.outfile) if not v.outfile.startswith("/") else open(v.outfile, "rb").read()
        except OSError:
            return False, "no output file"
        outp = os.path.join(wd, "ref_in.wenc")
        with open(outp, "wb") as f:
            f.write(data)
        # the input must be untouched as well
        if v.infile and v.infile in v.files:
            try:
                if _read_rel(wd, v.infile) != v.files[v.infile]:
                    return False, "the input file was modified"
            except OSError:
                return False, "the input file vanished"
        key = v.key
        if key is None:
            m = re.search(r"Key is:\s*([A-Za-z0-9+/]{22}==)", res["out"])
            if not m:
                return False, "no key printed"
            key = base64.b64decode(m.group(1))
        dec = os.path.join(wd, "ref_dec.bin")
        r = subprocess.run([rt, "decrypt", outp, key.hex(), str(T_CLI), str(CHUNK), dec], capture_output=True, text=True)
        if not r.stdout.startswith("OK"):
            return False, "reference cannot decrypt the output (%s)" % r.stdout.strip()
        with open(dec, "rb") as f:
            got = f.read()
        return (got == v.plain), "reference decrypts output to %d bytes, input has %d" % (len(got), len(v.plain))
    if v.op == "d":
        try:
            got = _read_rel(wd, v.outfile) if not v.outfile.startswith("/") else open(v.outfile, "rb").read()
        except OSError:
            return False, "no output file"
        # relative path + cwd: the absolute path of a deep input may exceed PATH_MAX
        r = subprocess.run([rt, "auth", v.infile, v.key.hex()], capture_output=True, text=True, cwd=wd)
        if r.stdout.strip() != "0":
            return False, "input not authentic under this key (ref code %s)" % r.stdout.strip()
        return (got == v.plain), "output %d bytes vs expected %d" % (len(got), len(v.plain))
    if v.op == "v":
        r = subprocess.run([rt, "auth", v.infile, v.key.hex()], capture_output=True, text=True, cwd=wd)
        return (r.stdout.strip() == "0"), "ref auth code %s" % r.stdout.strip()
    return False, "no operation"


def judge(chk, v, res, rt, wd, stats):
    argv = v.argv()
    short = [(a if len(a) < 80 else a[:30] + "...(%d chars)" % len(a)).encode("utf-8", "backslashreplace").decode() for a in argv]
    det = dict(argv=short, expect=v.expect, why=v.why, rc=res["rc"], status=res["status"], stdout_tail=res["out"][-600:], stderr_tail=res["err"][-1500:])
    stats["rc_%s" % res["rc"]] = stats.get("rc_%s" % res["rc"], 0) + 1
    if res["status"] == "timeout":
        chk.inconclusive.append(dict(argv=short, how="wall-clock timeout, process still consuming CPU"))
        return
    if res["status"] == "cpu-loop":
        chk.add_violation("C17|endless-loop|%s" % (v.why.split(";")[0] if v.why else v.cell.split("|")[0]), "the program spins without terminating (CPU time consumed: endless loop)", **det)
        return
    if res["status"] == "deadlock":
        chk.add_violation("C17|hang|%s" % v.cell.split("|")[0], "the program hung (all threads asleep, no CPU progress)", **det)
        return
    rc = res["rc"]
    san = runner.classify_stderr(res["err"])
    if rc < 0 or san or "Sanitizer" in res["err"] or "runtime error:" in res["err"]:
        what = san or ("signal:%s" % signal.Signals(-rc).name if rc < 0 else "sanitizer")
        stats["crashes"] = stats.get("crashes", 0) + 1
        chk.add_violation("C17|crash|%s|%s" % (what, v.why.split(";")[0] if v.why else v.cell.split("|")[0]), "the program crashed on an option vector (%s)" % what, **det)
        return
    if v.expect == "must_succeed":
        if rc != 0:
            chk.add_violation("C17|nonzero-exit|%s" % v.cell.split("|")[0], "-V / -h must exit 0", **det)
        return
    if v.expect == "must_fail":
        if rc == 0:
            chk.add_violation("C17|exit0-on-impossible-request|%s" % v.why.split(";")[0], "exit status 0 although the request cannot succeed (%s)" % v.why, **det)
        elif not any(o[0] in ("-n", "--no_echo") for o in v.opts) and not (res["out"].strip() or res["err"].strip()):
            chk.add_violation("C17|silent-failure|%s" % v.why.split(";")[0], "failure without any diagnostic", **det)
        return
    if v.expect == "dontcare":
        stats["dontcare"] = stats.get("dontcare", 0) + 1
        return
    ok, how = effect(rt, v, wd, res)
    det["effect"] = how
    stats["effect_%s" % ok] = stats.get("effect_%s" % ok, 0) + 1
    if rc == 0 and not ok:
        chk.add_violation("C17|exit0-without-effect|%s" % v.op, "exit status 0 but the operation did not happen (%s)" % how, **det)
    elif rc != 0 and ok:
        # -v / -d with a wrong key never have the effect; so effect + failure is a real mismatch
        chk.add_violation("C17|effect-but-nonzero-exit|%s" % v.op, "the operation happened but the exit status is non-zero", **det)
    elif rc != 0 and not any(o[0] in ("-n", "--no_echo") for o in v.opts) and not (res["out"].strip() or res["err"].strip()):
        chk.add_violation("C17|silent-failure|%s" % v.op, "failure without any diagnostic", **det)


def defaults_scenario(chk, binary, rt, wd, rnd, env, stats):
    """`-e -i F` writes F.wenc and prints a key with which `-d` restores F."""
    os.makedirs(wd, exist_ok=True)
    n = rnd.choice([0, 1, 16, 333, 4096, 100000])
    data = bytes(rnd.randrange(256) for _ in range(min(n, 997))) * (n // 997 + 1)
    data = data[:n]
    name = rnd.choice(["F", "file.with.dots", "sp ace", "x" * 100])
    with open(os.path.join(wd, name), "wb") as f:
        f.write(data)
    r1 = subprocess.run([binary, "-e", "-i", name], cwd=wd, stdin=subprocess.DEVNULL, capture_output=True, env=env, timeout=120)
    out1 = r1.stdout.decode("latin1")
    det = dict(name=name, n=n, rc_e=r1.returncode, stdout_tail=out1[-500:], stderr_tail=r1.stderr.decode("latin1")[-800:])
    stats["defaults_runs"] = stats.get("defaults_runs", 0) + 1
    m = re.search(r"Key is:\s*([A-Za-z0-9+/=]{24})", out1)
    if r1.returncode != 0 or not os.path.isfile(os.path.join(wd, name + ".wenc")) or not m:
        chk.add_violation("C17|defaults|encrypt-step", "`-e -i F` did not exit 0 / write F.wenc / print a key", **det)
        return
    r2 = subprocess.run([binary, "-d", "-i", name + ".wenc", "-o", "restored", "-k", m.group(1)], cwd=wd, stdin=subprocess.DEVNULL,
                        capture_output=True, env=env, timeout=120)
    det["rc_d"] = r2.returncode
    det["stderr_d"] = r2.stderr.decode("latin1")[-800:]
    got = None
    try:
        with open(os.path.join(wd, "restored"), "rb") as f:
            got = f.read()
    except OSError:
        pass
    if r2.returncode != 0 or got != data:
        chk.add_violation("C17|defaults|decrypt-step", "`-d` with the printed key did not restore F", **det)
    # and -v agrees
    r3 = subprocess.run([binary, "-v", "-i", name + ".wenc", "-k", m.group(1)], cwd=wd, stdin=subprocess.DEVNULL, capture_output=True, env=env, timeout=120)
    if r3.returncode != 0:
        chk.add_violation("C17|defaults|verify-step", "`-v` with the printed key failed on a fresh F.wenc", **det)


def c17(tier, seed):
    chk = Check("C17", tier, seed)
    chk.assumptions = ["OpenSSL-based reference tool decides whether the requested effect happened",
                       "ASan+UBSan build of the CLI with production constants (new_delete_type_mismatch and leak checks off: outside every property)",
                       "interactive prompt mode (no arguments) excluded, as in the property"]
    binary = cli_binary("asan")
    rt = reftool()
    env = runner.base_env()
    n = 1400 if tier == "quick" else 30000
    nd = 24 if tier == "quick" else 200
    rnd = random.Random(seed * 7919 + 17)
    root = os.path.join(chk.workdir, "cli")
    os.makedirs(root, exist_ok=True)
    wcache = {}

    def mk_wenc(plain, key, cm, hm):
        k = (plain, key, cm, hm)
        if k not in wcache:
            d = os.path.join(root, "mk")
            os.makedirs(d, exist_ok=True)
            pi, po = os.path.join(d, "p%d" % len(wcache)), os.path.join(d, "w%d" % len(wcache))
            with open(pi, "wb") as f:
                f.write(plain)
            seedhex = bytes(rnd.randrange(1, 256) for _ in range(rnd.randrange(1, 40))).hex()
            subprocess.run([rt, "encrypt", pi, key.hex(), str(cm), str(hm), seedhex, str(T_CLI), str(CHUNK), po], check=True)
            with open(po, "rb") as f:
                wcache[k] = f.read()
            os.unlink(pi)
            os.unlink(po)
        return wcache[k]

    vecs = []
    for i in range(n):
        wd = os.path.join(root, "v%d" % i)
        v = gen_vector(rnd, rt, wd, mk_wenc)
        vecs.append((i, v, wd))
    stats = {}
    cells = set()
    samples = []

    def work(item):
        i, v, wd = item
        if not prepare(v, wd):
            return (item, None)
        res = run_one(binary, v, wd, env)
        return (item, res)

    with ThreadPoolExecutor(max_workers=16) as ex:
        results = list(ex.map(work, vecs))
    evals = 0
    for (i, v, wd), res in results:
        if res is None:
            stats["unpreparable"] = stats.get("unpreparable", 0) + 1
            shutil.rmtree(wd, ignore_errors=True)
            continue
        evals += 1
        judge(chk, v, res, rt, wd, stats)
        cells.add((v.cell, v.expect, tuple(sorted(set(o[0] for o in v.opts)))))
        stats["expect_%s" % v.expect] = stats.get("expect_%s" % v.expect, 0) + 1
        if len(samples) < 6 and i % 211 == 0:
            samples.append(dict(argv=[(a if len(a) < 60 else a[:20] + "...(%d)" % len(a)).encode("utf-8", "backslashreplace").decode() for a in v.argv()], expect=v.expect, why=v.why, rc=res["rc"]))
        shutil.rmtree(wd, ignore_errors=True)
    drnd = random.Random(seed * 104729 + 5)
    for j in range(nd):
        wd = os.path.join(root, "d%d" % j)
        try:
            defaults_scenario(chk, binary, rt, wd, drnd, env, stats)
        except subprocess.TimeoutExpired:
            chk.inconclusive.append(dict(how="defaults scenario timed out"))
        evals += 1
        shutil.rmtree(wd, ignore_errors=True)
    if tier == "thorough":
        release_cross_check(chk, seed, 300, 20, stats)
        evals += stats.get("release_binary_vectors", 0) + stats.get("memcheck_vectors", 0)
    extra = dict(invocations=evals, stats=stats, distinct_cells=len(cells))
    return chk.finish(evals, len(cells),
                      "random option vectors where every option's value class is drawn independently: mode set {none,e,d,v,V,h,two modes} "
                      "x -i {valid, absent, missing, directory, empty, paths of 100..5000 chars built from real nested directories} x -o "
                      "{valid, absent, unopenable} x -k {valid, wrong, absent, 23/25 chars, bad alphabet, 0/1/3 '=', empty} x --cmode/--hmode "
                      "{valid, 5, 9, 127, 255, 256, 258, 260, 1000, -1, text} x -n x unknown option / missing argument / stray positional / "
                      "duplicate, long and short spellings; oracle: no signal / sanitizer report; impossible requests exit non-zero with a "
                      "diagnostic; otherwise exit 0 iff the reference confirms the effect; plus the defaults scenario (-e -i F -> F.wenc, "
                      "printed key, -d restores F); distinct = (mode|i|o|k value-class cell, expectation, option set)",
                      samples, extra, min_evaluations=300)


def release_binary():
    """The repository's own CMake release build (guard off, LTO, -O3), cached by tree hash under /verif/build."""
    key = wbuild.tree_hash("cmake-release")[:16]
    d = os.path.join(wbuild.BUILD, "cmake-%s" % key)
    b = os.path.join(d, "Wencry")
    if os.path.exists(b):
        return b
    os.makedirs(d, exist_ok=True)
    r = subprocess.run(["cmake", "-G", "Ninja", "-S", wbuild.REPO, "-B", d, "-DCMAKE_BUILD_TYPE=Release", "-DBUILD_TEST=OFF"], capture_output=True, text=True)
    if r.returncode:
        raise HarnessFailure("cmake configure failed: %s" % r.stderr[-1500:])
    r = subprocess.run(["cmake", "--build", d, "-j16"], capture_output=True, text=True)
    if r.returncode or not os.path.exists(b):
        raise HarnessFailure("cmake build failed: %s" % (r.stdout + r.stderr)[-2000:])
    return b


def release_cross_check(chk, seed, nvec, nmem, stats):
    """Thorough tier of C17: the same oracle on the CMake release binary, and a few vectors under valgrind memcheck
    (invalid read / write / free only; definedness is in no property)."""
    binary = release_binary()
    rt = reftool()
    env = runner.base_env()
    rnd = random.Random(seed * 15485863 + 11)
    root = os.path.join(chk.workdir, "cli_release")
    os.makedirs(root, exist_ok=True)
    wcache = {}

    def mk_wenc(plain, key, cm, hm):
        k = (plain, key, cm, hm)
        if k not in wcache:
            pi, po = os.path.join(root, "p%d" % len(wcache)), os.path.join(root, "w%d" % len(wcache))
            with open(pi, "wb") as f:
                f.write(plain)
            subprocess.run([rt, "encrypt", pi, key.hex(), str(cm), str(hm), "5eed%02x" % rnd.randrange(1, 255), str(T_CLI), str(CHUNK), po], check=True)
            with open(po, "rb") as f:
                wcache[k] = f.read()
            os.unlink(pi)
            os.unlink(po)
        return wcache[k]

    vecs = [(i, gen_vector(rnd, rt, os.path.join(root, "v%d" % i), mk_wenc), os.path.join(root, "v%d" % i)) for i in range(nvec)]

    def work(item):
        i, v, wd = item
        if not prepare(v, wd):
            return item, None
        return item, run_one(binary, v, wd, env)

    with ThreadPoolExecutor(max_workers=16) as ex:
        results = list(ex.map(work, vecs))
    n = 0
    for (i, v, wd), res in results:
        if res is not None:
            n += 1
            judge(chk, v, res, rt, wd, stats)
        shutil.rmtree(wd, ignore_errors=True)
    stats["release_binary_vectors"] = n
    # memcheck
    m = 0
    for j in range(nmem):
        wd = os.path.join(root, "m%d" % j)
        v = gen_vector(rnd, rt, wd, mk_wenc)
        if not prepare(v, wd):
            continue
        cmd = ["valgrind", "-q", "--error-exitcode=99", "--undef-value-errors=no", "--leak-check=no", binary] + v.argv()
        try:
            r = subprocess.run(cmd, cwd=wd, stdin=subprocess.DEVNULL, capture_output=True, timeout=600)
        except subprocess.TimeoutExpired:
            chk.inconclusive.append(dict(how="memcheck run timed out"))
            shutil.rmtree(wd, ignore_errors=True)
            continue
        m += 1
        err = r.stderr.decode("latin1")
        if r.returncode == 99 or "Invalid read" in err or "Invalid write" in err or "Invalid free" in err:
            kind = re.search(r"(Invalid (?:read|write|free)[^\n]*)", err)
            chk.add_violation("C17|memcheck|%s" % (kind.group(1)[:40] if kind else "error"), "valgrind memcheck reported a memory error on an option vector",
                              argv=[a[:60] for a in v.argv()], stderr_tail=err[-2500:])
        shutil.rmtree(wd, ignore_errors=True)
    stats["memcheck_vectors"] = m


def prod_oversubscribed(chk, seed, nruns):
    """C03 thorough: production constants (16 MiB chunks), real binary, 2x more concurrent runs than cores; every
    output must decrypt (by the reference) to the input and every decryption must restore it."""
    binary = cli_binary("plain")
    rt = reftool()
    rnd = random.Random(seed * 7 + 99)
    root = os.path.join(chk.workdir, "oversub")
    os.makedirs(root, exist_ok=True)
    src = os.path.join(root, "F")
    n = 40 * 1024 * 1024 + 12345
    with open(src, "wb") as f:
        blk = bytes(rnd.randrange(256) for _ in range(65536))
        for _ in range(n // 65536 + 1):
            f.write(blk)
        f.truncate(n)
    key = bytes(rnd.randrange(256) for _ in range(16))
    k64 = b64key(key)
    ev = dict(runs=0, ok=0)

    def one(i):
        wd = os.path.join(root, "r%d" % i)
        os.makedirs(wd, exist_ok=True)
        cm = i % 5
        r1 = subprocess.run([binary, "-e", "-i", src, "-o", "W", "-k", k64, "--cmode", str(cm), "-n"], cwd=wd, capture_output=True, timeout=1800)
        r2 = subprocess.run([binary, "-d", "-i", "W", "-o", "D", "-k", k64, "-n"], cwd=wd, capture_output=True, timeout=1800)
        ok_ref = subprocess.run([rt, "decrypt", os.path.join(wd, "W"), key.hex(), str(T_CLI), str(CHUNK), os.path.join(wd, "R")], capture_output=True, text=True).stdout.startswith("OK")
        same_d = subprocess.run(["cmp", "-s", src, os.path.join(wd, "D")]).returncode == 0
        same_r = ok_ref and subprocess.run(["cmp", "-s", src, os.path.join(wd, "R")]).returncode == 0
        shutil.rmtree(wd, ignore_errors=True)
        return i, cm, r1.returncode, r2.returncode, same_d, same_r

    with ThreadPoolExecutor(max_workers=32) as ex:
        for i, cm, rc1, rc2, same_d, same_r in ex.map(one, range(nruns)):
            ev["runs"] += 1
            if rc1 == 0 and rc2 == 0 and same_d and same_r:
                ev["ok"] += 1
            else:
                chk.add_violation("C03|prod-oversubscribed|%s" % ("enc-output-differs" if not same_r else "dec-output-differs" if not same_d else "nonzero-exit"),
                                  "production-constant run under CPU over-subscription gave wrong output", run=i, cmode=cm, rc_enc=rc1, rc_dec=rc2,
                                  reference_decrypts_to_input=same_r, decrypt_restores_input=same_d)
    shutil.rmtree(root, ignore_errors=True)
    return ev
