"""Verdict handling shared by all checks: known findings, replay files, evidence, exit codes."""
import json
import os
import shutil
import sys
import time

VERIF = os.path.dirname(os.path.dirname(os.path.abspath(__file__)))
EVID = os.environ.get("VERIF_EVID_DIR") or os.path.join(VERIF, "evidence")
REPLAYS = os.environ.get("VERIF_REPLAY_DIR") or os.path.join(VERIF, "replays")
BUILD = os.path.join(VERIF, "build")


class HarnessFailure(Exception):
    pass


def log(msg):
    sys.stderr.write("[check] %s\n" % msg)
    sys.stderr.flush()


def load_known():
    try:
        with open(os.path.join(VERIF, "known_findings.json")) as f:
            return json.load(f).get("findings", [])
    except OSError:
        return []


def match_known(pid, key, known):
    for k in known:
        if k.get("property") != pid or k.get("status") != "open":
            continue
        pat = k.get("key", "")
        if key == pat or (pat.endswith("*") and key.startswith(pat[:-1])):
            return k
    return None


class Check:
    def __init__(self, pid, tier, seed, level="exploration"):
        self.pid = pid
        self.tier = tier
        self.seed = seed
        self.level = level
        self.t0 = time.time()
        self.violations = []   # dict(key, what, detail...)
        self.inconclusive = []
        self.coverage = {}
        self.assumptions = []
        self.notes = []
        self.workdir = os.path.join(BUILD, "run-%s-%d" % (pid, os.getpid()))
        os.makedirs(self.workdir, exist_ok=True)

    def add_violation(self, key, what, **detail):
        d = dict(key=key, what=what)
        d.update(detail)
        self.violations.append(d)

    def cleanup(self):
        shutil.rmtree(self.workdir, ignore_errors=True)

    def finish(self, evaluations, distinct_nontrivial, rule, samples, extra=None, min_evaluations=1, exhaustive=None):
        known = load_known()
        wall = time.time() - self.t0
        by_key = {}
        for v in self.violations:
            by_key.setdefault(v["key"], []).append(v)
        unknown = 0
        known_hits = []
        os.makedirs(REPLAYS, exist_ok=True)
        out_lines = []
        for key in sorted(by_key):
            vs = by_key[key]
            k = match_known(self.pid, key, known)
            if k is not None:
                known_hits.append(dict(key=key, count=len(vs), what=k.get("what", "")))
                out_lines.append("KNOWN-FINDING: property=%s %s (key %s, %d observation(s) this run)" %
                                 (self.pid, k.get("what", ""), key, len(vs)))
                continue
            unknown += 1
            safe = "".join(c if c.isalnum() or c in "-_." else "_" for c in key)[:100]
            path = os.path.join(REPLAYS, "%s-%s-seed%d.json" % (self.pid, safe, self.seed))
            with open(path, "w") as f:
                json.dump(dict(property=self.pid, key=key, tier=self.tier, seed=self.seed, count=len(vs),
                               first=vs[0], more=vs[1:4],
                               how_to_replay="./check replay %s" % path), f, indent=1, default=str)
            out_lines.append("VIOLATION property=%s replay=%s" % (self.pid, path))
            log("violation key=%s x%d: %s" % (key, len(vs), vs[0].get("what", "")))
        cov = dict(evaluations=int(evaluations), distinct_nontrivial=int(distinct_nontrivial), rule=rule,
                   samples=samples if samples else ["(no sample recorded)"])
        if exhaustive is not None:
            cov["exhaustive"] = bool(exhaustive)
        cov["known_findings_observed"] = known_hits
        cov["inconclusive_cases"] = len(self.inconclusive)
        if self.inconclusive:
            cov["inconclusive_samples"] = self.inconclusive[:3]
        if extra:
            cov.update(extra)
        cov.update(self.coverage)
        ev = dict(property_id=self.pid, tier=self.tier, seed=int(self.seed), level=self.level, coverage=cov,
                  assumptions=self.assumptions, wall_s=round(wall, 2), violations=unknown)
        os.makedirs(EVID, exist_ok=True)
        tmp = os.path.join(EVID, "%s.json.tmp" % self.pid)
        with open(tmp, "w") as f:
            json.dump(ev, f, indent=1, default=str)
        os.replace(tmp, os.path.join(EVID, "%s.json" % self.pid))
        for l in out_lines:
            print(l)
        sys.stdout.flush()
        self.cleanup()
        if unknown:
            return 1
        if evaluations < min_evaluations or distinct_nontrivial < 2:
            log("inconclusive: only %d evaluations (%d distinct), need %d" % (evaluations, distinct_nontrivial, min_evaluations))
            return 2
        if self.inconclusive and len(self.inconclusive) > max(3, evaluations // 1000):
            log("inconclusive: %d cases could not be decided" % len(self.inconclusive))
            return 2
        log("%s %s seed=%d: held on %d evaluations (%d distinct), %.1fs" % (self.pid, self.tier, self.seed, evaluations,
                                                                         distinct_nontrivial, wall))
        return 0
