"""Build manager: compiles /repo's CURRENT WORKING TREE (never a snapshot) together with a harness,
one object cache per configuration under /verif/build/cfg-<hash>/.  The hash covers every source
file of /repo that takes part, every /verif engine source, the compiler and all flags, so any edit
forces a rebuild."""
import fcntl
import glob
import hashlib
import os
import re
import shutil
import subprocess
import sys
import time
from concurrent.futures import ThreadPoolExecutor

VERIF = os.path.dirname(os.path.dirname(os.path.abspath(__file__)))
REPO = os.environ.get("WENCRY_REPO", "/repo")
BUILD = os.path.join(VERIF, "build")

SAN = {
    "plain": dict(cxx="g++", cflags=["-O1", "-g"], ldflags=[]),
    "fast": dict(cxx="g++", cflags=["-O2"], ldflags=[]),
    "asan": dict(cxx="g++", cflags=["-O1", "-g", "-fno-omit-frame-pointer", "-fsanitize=address,undefined",
                                    "-fno-sanitize-recover=all"],
                 ldflags=["-fsanitize=address,undefined"]),
    "tsan": dict(cxx="g++", cflags=["-O1", "-g", "-fsanitize=thread"], ldflags=["-fsanitize=thread"]),
    "fuzz": dict(cxx="clang++-14", cflags=["-O1", "-g", "-fsanitize=fuzzer,address,undefined",
                                           "-fno-sanitize-recover=all", "-fno-sanitize=object-size"],
                 ldflags=["-fsanitize=fuzzer,address,undefined"]),
}

INCLUDES = ["kernel", "kernel/multi_aes", "kernel/multi_aes/aes", "kernel/hash", "valget", "valget/base64"]


class BuildError(Exception):
    pass


def repo_cpp(with_main=False):
    srcs = sorted(glob.glob(os.path.join(REPO, "kernel", "**", "*.cpp"), recursive=True)) + \
        sorted(glob.glob(os.path.join(REPO, "valget", "**", "*.cpp"), recursive=True))
    if with_main:
        srcs.append(os.path.join(REPO, "main.cpp"))
    return srcs


def repo_all_files():
    out = []
    for sub in ("kernel", "valget"):
        for ext in ("*.cpp", "*.h", "*.hpp"):
            out += glob.glob(os.path.join(REPO, sub, "**", ext), recursive=True)
    out += [os.path.join(REPO, "main.cpp"), os.path.join(REPO, "config.h.in")]
    return sorted(set(f for f in out if os.path.isfile(f)))


def verif_engine_files():
    out = []
    for sub in ("engines", "hooks"):
        for ext in ("*.cpp", "*.h", "*.hpp"):
            out += glob.glob(os.path.join(VERIF, sub, "**", ext), recursive=True)
    return sorted(out)


def tree_hash(extra=""):
    h = hashlib.sha256()
    for f in repo_all_files() + verif_engine_files():
        h.update(f.encode())
        with open(f, "rb") as fh:
            h.update(hashlib.sha256(fh.read()).digest())
    h.update(extra.encode())
    return h.hexdigest()


def repo_tree_id():
    h = hashlib.sha256()
    for f in repo_all_files():
        with open(f, "rb") as fh:
            h.update(hashlib.sha256(fh.read()).digest())
    return h.hexdigest()[:16]


def _gen_config(dst):
    os.makedirs(dst, exist_ok=True)
    src = open(os.path.join(REPO, "config.h.in")).read()
    ver = "3.7.4"
    try:
        m = re.search(r"project\(Wencry VERSION ([0-9.]+)", open(os.path.join(REPO, "CMakeLists.txt")).read())
        if m:
            ver = m.group(1)
    except OSError:
        pass
    parts = (ver.split(".") + ["0", "0", "0"])[:3]
    src = src.replace("@build_time@", "verif").replace("@PROJECT_VERSION_MAJOR@", parts[0]) \
        .replace("@PROJECT_VERSION_MINOR@", parts[1]).replace("@PROJECT_VERSION_PATCH@", parts[2]) \
        .replace("@PROJECT_VERSION@", ver)
    with open(os.path.join(dst, "config.h"), "w") as f:
        f.write(src)


def _prune(keep=80, min_age_s=4 * 3600):
    """Old object caches are removed, but never one that may still be in use by a concurrent check."""
    try:
        dirs = [os.path.join(BUILD, d) for d in os.listdir(BUILD) if d.startswith("cfg-")]
    except OSError:
        return
    dirs.sort(key=lambda d: os.path.getmtime(d), reverse=True)
    now = time.time()
    for d in dirs[keep:]:
        try:
            if now - os.path.getmtime(d) > min_age_s:
                shutil.rmtree(d, ignore_errors=True)
        except OSError:
            pass


def build(name, san, harness_srcs, defines=None, with_main=False, events=False, force_include=None,
          extra_cflags=None, extra_ldflags=None, libs=("-lcrypto", "-lpthread"), repo_srcs=None, log=None):
    """Returns the path of the linked binary.  harness_srcs are paths relative to /verif."""
    defines = dict(defines or {})
    defines.setdefault("WENCRY_VERIF", None)
    defines.setdefault("OPT_ON", None)
    if events:
        defines["WENCRY_VERIF_EVENTS"] = None
    s = SAN[san]
    dflags = []
    for k in sorted(defines):
        dflags.append("-D%s" % k if defines[k] is None else "-D%s=%s" % (k, defines[k]))
    cflags = ["-std=gnu++17", "-w"] + s["cflags"] + dflags + list(extra_cflags or [])
    if force_include:
        cflags += ["-include", os.path.join(VERIF, force_include)]
    key = tree_hash("|".join([name, san, s["cxx"]] + cflags + list(harness_srcs) + list(extra_ldflags or []) +
                             [str(with_main), str(repo_srcs)]))[:20]
    cfg = os.path.join(BUILD, "cfg-%s-%s" % (name, key))
    binpath = os.path.join(cfg, name)
    os.makedirs(cfg, exist_ok=True)
    lock = open(os.path.join(cfg, ".lock"), "w")
    fcntl.flock(lock, fcntl.LOCK_EX)
    try:
        if os.path.exists(binpath) and os.path.exists(os.path.join(cfg, ".ok")):
            os.utime(cfg, None)
            return binpath
        t0 = time.time()
        _gen_config(os.path.join(cfg, "generated"))
        inc = ["-I" + os.path.join(REPO, i) for i in INCLUDES] + ["-I" + os.path.join(cfg, "generated"),
                                                                  "-I" + os.path.join(VERIF, "hooks"),
                                                                  "-I" + os.path.join(VERIF, "engines")]
        rs = repo_cpp(with_main) if repo_srcs is None else [os.path.join(REPO, r) for r in repo_srcs]
        jobs = []
        for src in rs:
            obj = os.path.join(cfg, "r_" + os.path.relpath(src, REPO).replace("/", "_") + ".o")
            jobs.append((src, obj, True))
        for src in harness_srcs:
            p = os.path.join(VERIF, src)
            obj = os.path.join(cfg, "h_" + src.replace("/", "_") + ".o")
            jobs.append((p, obj, False))

        def cc(job):
            src, obj, is_repo = job
            fl = list(cflags)
            if not is_repo and force_include and os.path.basename(src).startswith("nofi_"):
                # harness TUs named nofi_* are compiled without the forced include
                i = fl.index("-include")
                del fl[i:i + 2]
            cmd = [s["cxx"]] + fl + inc + ["-c", src, "-o", obj]
            r = subprocess.run(cmd, capture_output=True, text=True)
            return (src, r.returncode, r.stderr)

        with ThreadPoolExecutor(max_workers=16) as ex:
            res = list(ex.map(cc, jobs))
        errs = [(s_, e) for (s_, rc, e) in res if rc != 0]
        if errs:
            raise BuildError("compile failed:\n" + "\n".join("%s:\n%s" % (a, b[-3000:]) for a, b in errs))
        cmd = [s["cxx"]] + s["ldflags"] + [j[1] for j in jobs] + ["-o", binpath] + list(extra_ldflags or []) + list(libs)
        r = subprocess.run(cmd, capture_output=True, text=True)
        if r.returncode != 0:
            raise BuildError("link failed:\n" + r.stderr[-4000:])
        open(os.path.join(cfg, ".ok"), "w").write("ok")
        if log:
            log("built %s (%s) in %.1fs" % (name, san, time.time() - t0))
        _prune()
        return binpath
    finally:
        fcntl.flock(lock, fcntl.LOCK_UN)
        lock.close()


if __name__ == "__main__":
    print(repo_tree_id())
