/* Supplied by /verif on the include path when /repo is built with
 * -DWENCRY_VERIF -DWENCRY_VERIF_EVENTS.  Each engine links its own definition of
 * wencry_verif_event (event logger + scheduling point, delay injector, ...). */
#ifndef WENCRY_VERIF_HOOKS_H
#define WENCRY_VERIF_HOOKS_H

#ifdef __cplusplus
extern "C" {
#endif
void wencry_verif_event(int kind, int id, long a, long b);
#ifdef __cplusplus
}
#endif

enum wv_kind {
  WV_SETUP_BUF = 1,    /* id=T, a=buflst base, b=sizeof(iobuffer) */
  WV_SETUP_CTRL,       /* id=T, a=ctrl base,   b=sizeof(bufferctrl) */
  WV_SETUP_STATE,      /* id=ispadding, a=turn, b=over */
  WV_TEARDOWN,         /* b=haslive() after delete */
  WV_LOAD_BEGIN,       /* a=iobuffer*, b=ispadding */
  WV_LOAD_TOTAL,       /* a=iobuffer*, b=total (after total=, before now=0) */
  WV_LOAD_END,         /* id=loadstate, a=iobuffer*, b=total */
  WV_EXPORT_BEGIN,     /* id=isfinal, a=iobuffer*, b=now */
  WV_EXPORT_END,
  WV_WAIT_READY_BEGIN, /* a=bufferctrl* */
  WV_WAIT_READY_END,   /* id=state (under lock) */
  WV_WAIT_UPDATE_BEGIN,
  WV_WAIT_UPDATE_END,  /* id=state (under lock) */
  WV_SET_READY,        /* id=new state (under lock), a=bufferctrl*, b=live_num */
  WV_SET_UPDATE,       /* id=state after (under lock), a=bufferctrl* */
  WV_GET_FIRST,        /* id=worker, a=iobuffer*, b=entry ptr or 0 */
  WV_GET_AFTER_WAIT,   /* id=worker, a=iobuffer*, b=entry ptr or 0 */
  WV_UPDATE_TURN,      /* id=turn, a=iobuffer*, b=over */
  WV_RUNCRY_BEGIN,     /* id=worker, a=block ptr */
  WV_RUNCRY_END,
  WV_WORKER_EXIT,      /* id=worker */
  WV_IO_DONE,          /* id=T */
  WV_KIND_MAX
};

#define WV_EVENT(kind, id, a, b) wencry_verif_event((kind), (int)(id), (long)(a), (long)(b))

#endif
