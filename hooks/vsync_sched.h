// Forced include (-include) for the `sched` build flavour: replaces std::mutex / std::condition_variable /
// std::thread in /repo's sources by scheduler-controlled equivalents WITHOUT editing the sources.
// All standard headers the repository uses are included first, so the renaming macros below only touch
// the repository's own code.
#ifndef VSYNC_SCHED_H
#define VSYNC_SCHED_H
#ifdef __cplusplus
#include <algorithm>
#include <chrono>
#include <condition_variable>
#include <filesystem>
#include <functional>
#include <iomanip>
#include <iostream>
#include <map>
#include <memory>
#include <mutex>
#include <string>
#include <thread>
#include <vector>
#include <ctype.h>
#include <math.h>
#include <stdio.h>
#include <stdlib.h>
#include <string.h>
#include <time.h>
#include <sys/stat.h>
#include <unistd.h>
#include <getopt.h>

namespace vsched {
void mutex_lock(void *m);
void mutex_unlock(void *m);
void cv_wait(void *cv, void *m);
bool cv_wait_timed(void *cv, void *m); // false = timed out (time is not modelled: a timed waiter may time out at any point)
bool mutex_try_lock(void *m);
void cv_notify(void *cv, bool all);
int thread_start(std::function<void()> fn);
void thread_join(int id);
} // namespace vsched

namespace std {
class vmutex {
public:
  vmutex() noexcept {}
  vmutex(const vmutex &) = delete;
  vmutex &operator=(const vmutex &) = delete;
  void lock() { vsched::mutex_lock(this); }
  void unlock() { vsched::mutex_unlock(this); }
  bool try_lock() { return vsched::mutex_try_lock(this); }
};
class vcondition_variable {
public:
  vcondition_variable() noexcept {}
  vcondition_variable(const vcondition_variable &) = delete;
  void notify_one() noexcept { vsched::cv_notify(this, false); }
  void notify_all() noexcept { vsched::cv_notify(this, true); }
  void wait(std::unique_lock<vmutex> &lk) { vsched::cv_wait(this, lk.mutex()); }
  template <class Pred> void wait(std::unique_lock<vmutex> &lk, Pred p) {
    while (!p()) wait(lk);
  }
  template <class Rep, class Period> std::cv_status wait_for(std::unique_lock<vmutex> &lk, const std::chrono::duration<Rep, Period> &) {
    return vsched::cv_wait_timed(this, lk.mutex()) ? std::cv_status::no_timeout : std::cv_status::timeout;
  }
  template <class Rep, class Period, class Pred> bool wait_for(std::unique_lock<vmutex> &lk, const std::chrono::duration<Rep, Period> &d, Pred p) {
    while (!p())
      if (wait_for(lk, d) == std::cv_status::timeout) return p();
    return true;
  }
  template <class Clock, class Dur> std::cv_status wait_until(std::unique_lock<vmutex> &lk, const std::chrono::time_point<Clock, Dur> &) {
    return vsched::cv_wait_timed(this, lk.mutex()) ? std::cv_status::no_timeout : std::cv_status::timeout;
  }
  template <class Clock, class Dur, class Pred> bool wait_until(std::unique_lock<vmutex> &lk, const std::chrono::time_point<Clock, Dur> &t, Pred p) {
    while (!p())
      if (wait_until(lk, t) == std::cv_status::timeout) return p();
    return true;
  }
};
class vthread {
  int id_ = -1;

public:
  vthread() noexcept {}
  template <class F, class... A> explicit vthread(F &&f, A &&...a) {
    id_ = vsched::thread_start(std::function<void()>(std::bind(std::forward<F>(f), std::forward<A>(a)...)));
  }
  vthread(const vthread &) = delete;
  vthread(vthread &&o) noexcept : id_(o.id_) { o.id_ = -1; }
  vthread &operator=(vthread &&o) noexcept {
    id_ = o.id_;
    o.id_ = -1;
    return *this;
  }
  bool joinable() const noexcept { return id_ >= 0; }
  void detach() { id_ = -1; }
  int get_id() const noexcept { return id_; }
  static unsigned hardware_concurrency() noexcept { return 16; }
  void swap(vthread &o) noexcept { std::swap(id_, o.id_); }
  void join() {
    vsched::thread_join(id_);
    id_ = -1;
  }
  ~vthread() {}
};
} // namespace std

#define mutex vmutex
#define condition_variable vcondition_variable
#define thread vthread
#endif
#endif
