// C09 single-block AES-128 vs FIPS-197 (libcrypto) + exhaustive table recomputation; C10 five modes vs SP 800-38A.
#include "ctx.hpp"
#include "aes.h"
#include "aesmode.h"
#include "aes/tab.h"

namespace {
uint8_t gfmul(uint8_t a, uint8_t b) {
  uint8_t p = 0;
  for (int i = 0; i < 8; i++) {
    if (b & 1) p ^= a;
    uint8_t hi = a & 0x80;
    a <<= 1;
    if (hi) a ^= 0x1b;
    b >>= 1;
  }
  return p;
}
uint8_t gfinv(uint8_t a) {
  if (!a) return 0;
  for (int b = 1; b < 256; b++)
    if (gfmul(a, (uint8_t)b) == 1) return (uint8_t)b;
  return 0;
}
uint8_t rotl8(uint8_t x, int s) { return (uint8_t)((x << s) | (x >> (8 - s))); }

void check_tables(Ctx &cx) {
  long long checked = 0;
  auto bad = [&](const char *tab, int idx, int got, int want) {
    vh::J d;
    d.str("table", tab).num("index", idx).num("got", got).num("want", want);
    cx.rep.violation(std::string("C09|table|") + tab, "table entry differs from its FIPS-197 definition", d.done());
  };
  for (int x = 0; x < 256; x++) {
    uint8_t b = gfinv((uint8_t)x);
    uint8_t s = b ^ rotl8(b, 1) ^ rotl8(b, 2) ^ rotl8(b, 3) ^ rotl8(b, 4) ^ 0x63;
    if (s_box[x] != s) bad("s_box", x, s_box[x], s);
    if (rs_box[s] != x) bad("rs_box", s, rs_box[s], x);
    checked += 2;
  }
  // generator 3: Alogtable[i] = 3^i; indices reachable from Gmul are 0 .. 238+254
  uint8_t p = 1;
  for (int i = 0; i <= 238 + 254; i++) {
    if (Alogtable[i] != p) bad("Alogtable", i, Alogtable[i], p);
    if (i < 255 && Logtable[p] != i) bad("Logtable", p, Logtable[p], i);
    p = gfmul(p, 3);
    checked += i < 255 ? 2 : 1;
  }
  uint8_t rc = 1;
  for (int i = 1; i <= 10; i++) {
    if (RC[i] != rc) bad("RC", i, RC[i], rc);
    rc = gfmul(rc, 2);
    checked++;
  }
  // the Gmul macro for every value and every multiplier (given as logs) the code uses
  const int logs[] = {0, 1, 25, 223, 104, 238, 199};
  const uint8_t mults[] = {1, 3, 2, 0x0e, 0x0b, 0x0d, 0x09};
  for (int k = 0; k < 7; k++)
    for (int v = 0; v < 256; v++) {
      uint8_t got = Gmul(logs[k], (uint8_t)v);
      uint8_t want = gfmul(mults[k], (uint8_t)v);
      if (got != want) {
        vh::J d;
        d.num("log_u", logs[k]).num("v", v).num("got", got).num("want", want);
        cx.rep.violation("C09|Gmul", "Gmul(u,v) differs from GF(2^8) multiplication", d.done());
      }
      checked++;
    }
  cx.rep.count("table_entries_checked", checked);
  cx.rep.count("tables_exhaustive", 1);
}

// one key, nb blocks: real enc (object reused), fresh-object enc for block 0, real dec, vs libcrypto ECB
void key_case(Ctx &cx, const uint8_t key[16], const bytes &blocks, const std::string &family) {
  size_t nb = blocks.size() / 16;
  bytes want(blocks.size()), got = blocks;
  {
    uint8_t z[16] = {0};
    ref::Stream s(0, true, key, z);
    s.run(blocks.data(), want.data(), blocks.size());
  }
  encryaes e(key);
  decryaes d(key);
  for (size_t i = 0; i < nb; i++) e.runaes_128bit(got.data() + 16 * i);
  cx.rep.count("pairs_compared", (long long)nb);
  for (size_t i = 0; i < nb; i++)
    if (memcmp(got.data() + 16 * i, want.data() + 16 * i, 16)) {
      vh::J j;
      j.str("key", vh::hex(key, 16)).str("block", vh::hex(blocks.data() + 16 * i, 16)).str("got", vh::hex(got.data() + 16 * i, 16)).str("want", vh::hex(want.data() + 16 * i, 16)).num("index_in_object", (long long)i);
      cx.rep.violation("C09|encrypt-mismatch|" + family, "encryaes differs from FIPS-197 AES-128", j.done());
      return;
    }
  {
    encryaes f(key);
    uint8_t b0[16];
    memcpy(b0, blocks.data(), 16);
    f.runaes_128bit(b0);
    if (nb && memcmp(b0, want.data(), 16)) cx.rep.violation("C09|encrypt-mismatch|fresh-object", "fresh encryaes object differs", "{}");
  }
  bytes back = got;
  for (size_t i = 0; i < nb; i++) d.runaes_128bit(back.data() + 16 * i);
  if (back != blocks) {
    vh::J j;
    j.str("key", vh::hex(key, 16));
    cx.rep.violation("C09|decrypt-not-inverse|" + family, "decryaes(encryaes(x)) != x", j.done());
    return;
  }
  // decrypt direction on independent data as well: D(x) vs libcrypto
  {
    bytes wd(blocks.size()), gd = blocks;
    uint8_t z[16] = {0};
    ref::Stream s(0, false, key, z);
    s.run(blocks.data(), wd.data(), blocks.size());
    for (size_t i = 0; i < nb; i++) d.runaes_128bit(gd.data() + 16 * i);
    if (gd != wd) cx.rep.violation("C09|decrypt-mismatch|" + family, "decryaes differs from FIPS-197 inverse cipher", "{}");
  }
  cx.rep.dist("class", vh::fnv(key, 16, vh::fnv(blocks.data(), std::min<size_t>(blocks.size(), 32))));
}
} // namespace

void run_C09(Ctx &cx) {
  if (cx.take()) {
    cx.begin("{\"family\":\"tables\"}");
    check_tables(cx);
  }
  // known-answer families
  if (cx.take()) {
    cx.begin("{\"family\":\"fips197-c1\"}");
    bytes k = vh::unhex("000102030405060708090a0b0c0d0e0f"), p = vh::unhex("00112233445566778899aabbccddeeff");
    uint8_t b[16];
    memcpy(b, p.data(), 16);
    encryaes e(k.data());
    e.runaes_128bit(b);
    if (vh::hex(b, 16) != "69c4e0d86a7b0430d8cdb78070b4c55a") cx.rep.violation("C09|encrypt-mismatch|fips197-c1", "FIPS-197 C.1 vector", "{}");
    key_case(cx, k.data(), p, "fips197-c1");
  }
  for (int bit = 0; bit < 128; bit++) {
    if (!cx.take()) continue;
    cx.begin("{\"family\":\"single-bit\",\"bit\":" + std::to_string(bit) + "}");
    uint8_t k[16] = {0};
    bytes blk(32, 0);
    k[bit / 8] = (uint8_t)(0x80 >> (bit % 8));
    key_case(cx, k, blk, "single-bit-key");
    uint8_t z[16] = {0};
    blk[bit / 8] = (uint8_t)(0x80 >> (bit % 8));
    key_case(cx, z, blk, "single-bit-block");
  }
  for (int pos = 0; pos < 16; pos++) {
    if (!cx.take()) continue;
    cx.begin("{\"family\":\"byte-values\",\"pos\":" + std::to_string(pos) + "}");
    vh::Rng r = cx.case_rng();
    // every byte value in this key position (random rest), and in this block position
    for (int v = 0; v < 256; v++) {
      uint8_t k[16];
      r.fill(k, 16);
      k[pos] = (uint8_t)v;
      bytes blk = r.bytes_(16);
      key_case(cx, k, blk, "byte-values-key");
    }
    uint8_t k[16];
    r.fill(k, 16);
    bytes blk = r.bytes_(16 * 256);
    for (int v = 0; v < 256; v++) blk[16 * v + pos] = (uint8_t)v;
    key_case(cx, k, blk, "byte-values-block");
  }
  // round-1 structure: after the first AddRoundKey the chosen state bytes all equal x, so that after SubBytes/ShiftRows a
  // whole column (diagonal family) or the whole state is the constant S(x) - in particular 0x00 for x = 0x52.  Data-dependent
  // shortcuts ("an all-zero column is a fixed point", missing log of 0, ...) live exactly there.
  for (int x = 0; x < 256; x++) {
    if (!cx.take()) continue;
    cx.begin("{\"family\":\"round1-constant-columns\",\"x\":" + std::to_string(x) + "}");
    vh::Rng r = cx.case_rng();
    for (int rep = 0; rep < 4; rep++) {
      uint8_t k[16];
      r.fill(k, 16);
      bytes blk = r.bytes_(16 * 6);
      for (int c = 0; c < 4; c++) // column c after ShiftRows comes from bytes r + 4*((c+r)%4)
        for (int row = 0; row < 4; row++) blk[16 * c + row + 4 * ((c + row) % 4)] = k[row + 4 * ((c + row) % 4)] ^ (uint8_t)x;
      for (int i = 0; i < 16; i++) blk[64 + i] = k[i] ^ (uint8_t)x;                     // whole state constant
      for (int i = 0; i < 16; i++) blk[80 + i] = k[i] ^ (uint8_t)(i < 8 ? x : x ^ 0xff); // two constant halves
      key_case(cx, k, blk, "round1-constant-columns");
    }
  }
#if !defined(__SANITIZE_ADDRESS__)
  // the block at every address offset 1..15 (build without UBSan's alignment check, see C10)
  for (int off = 1; off < 16; off++) {
    if (!cx.take()) continue;
    cx.begin("{\"family\":\"unaligned-block-address\",\"offset\":" + std::to_string(off) + "}");
    vh::Rng r = cx.case_rng();
    for (int rep = 0; rep < 8; rep++) {
      uint8_t k[16];
      r.fill(k, 16);
      alignas(16) uint8_t raw[16 * 4 + 32];
      bytes plain = r.bytes_(64), want(64), back(64);
      uint8_t z[16] = {0};
      { ref::Stream s(0, true, k, z); s.run(plain.data(), want.data(), 64); }
      uint8_t *blk = raw + off;
      memcpy(blk, plain.data(), 64);
      encryaes e(k);
      decryaes d(k);
      for (int i = 0; i < 4; i++) e.runaes_128bit(blk + 16 * i);
      cx.rep.count("pairs_compared", 4);
      if (memcmp(blk, want.data(), 64)) {
        vh::J j;
        j.num("address_offset", off).str("key", vh::hex(k, 16));
        cx.rep.violation("C09|encrypt-mismatch|unaligned-block-address", "encryaes differs from FIPS-197 when the block is at an unaligned address", j.done());
        break;
      }
      for (int i = 0; i < 4; i++) d.runaes_128bit(blk + 16 * i);
      if (memcmp(blk, plain.data(), 64)) {
        cx.rep.violation("C09|decrypt-not-inverse|unaligned-block-address", "decryaes(encryaes(x)) != x at an unaligned address", "{}");
        break;
      }
    }
    cx.rep.dist("class", vh::tuple_hash({424242, off}));
  }
#endif
  long long nkeys = cx.thorough ? 3000000 : 40000;
  for (long long i = 0; i < nkeys; i++) {
    if (!cx.take()) continue;
    vh::Rng r = cx.case_rng();
    uint8_t k[16];
    r.fill(k, 16);
    bytes blk = r.bytes_(16 * 64);
    vh::J j;
    j.str("family", "random").str("key", vh::hex(k, 16)).str("first_block", vh::hex(blk.data(), 16)).num("blocks", 64);
    cx.begin(j.done());
    if (i % 4096 == 0) cx.rep.sample(j.done());
    key_case(cx, k, blk, "random");
  }
}

// ----------------------------------------------------------------------------------------------
namespace {
void stream_case(Ctx &cx, int mode, const uint8_t key[16], const uint8_t iv[16], size_t nblocks, vh::Rng &r, const std::string &family) {
  uint8_t k[16], ivc[20];
  memcpy(k, key, 16);
  memset(ivc, 0xA5, 20);
  memcpy(ivc, iv, 16);
  AesFactory fe(k), fd(k);
  fe.loadiv(ivc);
  fd.loadiv(ivc);
  Aesmode *enc = fe.createCryMaster(true, (u8_t)mode), *dec = fd.createCryMaster(false, (u8_t)mode);
  if (!enc || !dec) { cx.rep.violation("C10|factory-null|mode" + std::to_string(mode), "factory returned NULL for a valid mode", "{}"); return; }
  ref::Stream rs(mode, true, key, iv);
  const size_t B = 4096;
  uint8_t in[16 * 64], out[16 * 64], want[16 * 64], back[16 * 64];
  for (size_t done = 0; done < nblocks;) {
    size_t nb = std::min<size_t>(64, nblocks - done);
    r.fill(in, 16 * nb);
    if (family == "zero-plain") memset(in, 0, 16 * nb);
    if (family == "sparse-plain")
      for (size_t i = 0; i < nb; i++) {
        unsigned mask = (unsigned)((done + i) * 7 + 3) & 15; // which of the four words stay
        for (int w = 0; w < 4; w++)
          if (!(mask & (1u << w))) memset(in + 16 * i + 4 * w, 0, 4);
      }
    memcpy(out, in, 16 * nb);
    for (size_t i = 0; i < nb; i++) enc->runcry(out + 16 * i);
    rs.run(in, want, 16 * nb);
    cx.rep.count("blocks_compared", (long long)nb);
    for (size_t i = 0; i < nb; i++)
      if (memcmp(out + 16 * i, want + 16 * i, 16)) {
        vh::J j;
        j.num("mode", mode).str("key", vh::hex(key, 16)).str("iv", vh::hex(iv, 16)).num("first_diverging_block", (long long)(done + i));
        j.str("got", vh::hex(out + 16 * i, 16)).str("want", vh::hex(want + 16 * i, 16));
        static const char *mn[] = {"ECB", "CBC", "CTR", "CFB", "OFB"};
        cx.rep.violation(std::string("C10|encrypt-mismatch|") + mn[mode] + "|" + family + (done + i == 0 ? "|block0" : "|later"), "mode encryptor differs from SP 800-38A", j.done());
        delete enc; delete dec;
        return;
      }
    memcpy(back, out, 16 * nb);
    for (size_t i = 0; i < nb; i++) dec->runcry(back + 16 * i);
    if (memcmp(back, in, 16 * nb)) {
      vh::J j;
      j.num("mode", mode).str("key", vh::hex(key, 16)).str("iv", vh::hex(iv, 16)).num("around_block", (long long)done);
      static const char *mn[] = {"ECB", "CBC", "CTR", "CFB", "OFB"};
      cx.rep.violation(std::string("C10|decrypt-not-inverse|") + mn[mode] + "|" + family, "decryptor does not restore the encryptor's input", j.done());
      delete enc; delete dec;
      return;
    }
    done += nb;
  }
  (void)B;
  delete enc;
  delete dec;
  cx.rep.maxc("max_stream_blocks", (long long)nblocks);
}
} // namespace

void run_C10(Ctx &cx) {
  // SP 800-38A F.1-F.5 (4 blocks each) through the factory objects
  if (cx.take()) {
    cx.begin("{\"family\":\"sp800-38a\"}");
    bytes k = vh::unhex("2b7e151628aed2a6abf7158809cf4f3c");
    bytes p = vh::unhex("6bc1bee22e409f96e93d7e117393172aae2d8a571e03ac9c9eb76fac45af8e5130c81c46a35ce411e5fbc1191a0a52eff69f2445df4f9b17ad2b417be66c3710");
    bytes iv = vh::unhex("000102030405060708090a0b0c0d0e0f"), civ = vh::unhex("f0f1f2f3f4f5f6f7f8f9fafbfcfdfeff");
    const char *ct[5] = {
        "3ad77bb40d7a3660a89ecaf32466ef97f5d3d58503b9699de785895a96fdbaaf43b1cd7f598ece23881b00e3ed0306887b0c785e27e8ad3f8223207104725dd4",
        "7649abac8119b246cee98e9b12e9197d5086cb9b507219ee95db113a917678b273bed6b8e3c1743b7116e69e222295163ff1caa1681fac09120eca307586e1a7",
        "874d6191b620e3261bef6864990db6ce9806f66b7970fdff8617187bb9fffdff5ae4df3edbd5d35e5b4f09020db03eab1e031dda2fbe03d1792170a0f3009cee",
        "3b3fd92eb72dad20333449f8e83cfb4ac8a64537a0b3a93fcde3cdad9f1ce58b26751f67a3cbb140b1808cf187a4f4dfc04b05357c5d1c0eeac4c66f9ff7f2e6",
        "3b3fd92eb72dad20333449f8e83cfb4a7789508d16918f03f53c52dac54ed8259740051e9c5fecf64344f7a82260edcc304c6528f659c77866a510d9c1d6ae5e"};
    for (int m = 0; m < 5; m++) {
      uint8_t kk[16], ivv[20] = {0};
      memcpy(kk, k.data(), 16);
      memcpy(ivv, m == 2 ? civ.data() : iv.data(), 16);
      AesFactory f(kk);
      f.loadiv(ivv);
      Aesmode *e = f.createCryMaster(true, (u8_t)m);
      bytes o = p;
      for (int i = 0; i < 4; i++) e->runcry(o.data() + 16 * i);
      delete e;
      cx.rep.count("blocks_compared", 4);
      if (vh::hex(o) != ct[m]) cx.rep.violation("C10|encrypt-mismatch|sp800-38a-vector|mode" + std::to_string(m), "SP 800-38A appendix F vector", "{}");
    }
  }
  // invalid type numbers
  if (cx.take()) {
    cx.begin("{\"family\":\"invalid-types\"}");
    uint8_t k[16] = {1}, iv[20] = {2};
    AesFactory f(k);
    f.loadiv(iv);
    for (int t = 5; t < 256; t++)
      for (int e = 0; e < 2; e++) {
        Aesmode *m = f.createCryMaster(e, (u8_t)t);
        cx.rep.count("invalid_types_tried");
        if (m) { cx.rep.violation("C10|factory-nonnull-invalid-type", "factory returned an object for an invalid type number", "{}"); delete m; }
      }
  }
  long long nstreams = cx.thorough ? 60000 : 1600;
  for (long long i = 0; i < nstreams; i++)
    for (int mode = 0; mode < 5; mode++) {
      if (!cx.take()) continue;
      vh::Rng r = cx.case_rng();
      uint8_t key[16], iv[16];
      r.fill(key, 16);
      r.fill(iv, 16);
      std::string family = "random";
      int sel = (int)(i % 8);
      int carry = 0;
      if (sel == 1) { // last k bytes 0xFF
        carry = 1 + (int)((i / 8) % 16);
        for (int q = 16 - carry; q < 16; q++) iv[q] = 0xFF;
        family = "carry-ff";
      } else if (sel == 2) { // IV = 2^128 - j
        int j = 1 + (int)((i / 8) % 4);
        memset(iv, 0xFF, 16);
        iv[15] = (uint8_t)(0x100 - j);
        carry = 16;
        family = "carry-wrap";
      } else if (sel == 3) { // low bytes about to wrap within the stream
        iv[15] = (uint8_t)(0x100 - 1 - r.below(40));
        iv[14] = 0xFF;
        if (r.chance(50)) iv[13] = 0xFF;
        carry = 2;
        family = "carry-soon";
      } else if (sel == 4)
        family = "zero-plain";
      else if (sel == 5)
        family = "sparse-plain"; // blocks with whole 4-byte words zero (first half / second half / single words)
      size_t nb = (size_t)r.below(301);
      if (sel == 1 || sel == 2) nb = 5 + (size_t)r.below(20);
      vh::J j;
      j.num("mode", mode).str("key", vh::hex(key, 16)).str("iv", vh::hex(iv, 16)).num("blocks", (long long)nb).str("family", family).str("rng", std::to_string(vh::mix(cx.seed, (uint64_t)cx.idx)));
      std::string desc = j.done();
      cx.begin(desc);
      cx.rep.count("streams");
      stream_case(cx, mode, key, iv, nb, r, family);
      if (carry) cx.rep.maxc("max_carry_chain_bytes", carry);
      cx.rep.dist("class", vh::tuple_hash({mode, (long long)vh::fnv(family.data(), family.size()), (long long)nb, carry}));
      if (cx.idx % 1999 == 0) cx.rep.sample(desc);
    }
#if !defined(__SANITIZE_ADDRESS__)
  // blocks at addresses that are not 4- or 16-byte aligned (only in the build without UBSan: the product's own word
  // casts are formally misaligned there, which is outside every property and must not alarm)
  for (int off = 1; off < 16; off++)
    for (int mode = 0; mode < 5; mode++) {
      if (!cx.take()) continue;
      vh::Rng r = cx.case_rng();
      uint8_t key[16], iv[20];
      r.fill(key, 16);
      r.fill(iv, 20);
      vh::J j;
      j.num("mode", mode).num("address_offset", off).str("key", vh::hex(key, 16)).str("iv", vh::hex(iv, 16)).str("family", "unaligned-block-address");
      cx.begin(j.done());
      uint8_t k2[16];
      memcpy(k2, key, 16);
      AesFactory fe(k2), fd(k2);
      fe.loadiv(iv);
      fd.loadiv(iv);
      Aesmode *enc = fe.createCryMaster(true, (u8_t)mode), *dec = fd.createCryMaster(false, (u8_t)mode);
      ref::Stream rs(mode, true, key, iv);
      alignas(16) uint8_t raw[16 * 12 + 32], want[16 * 12];
      bytes plain = r.bytes_(16 * 12);
      uint8_t *blk = raw + off;
      memcpy(blk, plain.data(), plain.size());
      for (int i = 0; i < 12; i++) enc->runcry(blk + 16 * i);
      rs.run(plain.data(), want, plain.size());
      cx.rep.count("streams");
      cx.rep.count("blocks_compared", 12);
      static const char *mn[] = {"ECB", "CBC", "CTR", "CFB", "OFB"};
      if (memcmp(blk, want, plain.size())) cx.rep.violation(std::string("C10|encrypt-mismatch|") + mn[mode] + "|unaligned-block-address", "mode encryptor differs from SP 800-38A when the block is at an unaligned address", j.done());
      else {
        for (int i = 0; i < 12; i++) dec->runcry(blk + 16 * i);
        if (memcmp(blk, plain.data(), plain.size())) cx.rep.violation(std::string("C10|decrypt-not-inverse|") + mn[mode] + "|unaligned-block-address", "decryptor does not restore the input at an unaligned address", j.done());
      }
      delete enc;
      delete dec;
      cx.rep.dist("class", vh::tuple_hash({mode, 31337, off}));
    }
#endif
  // long streams: past 2^16 blocks (quick) / 2^24 (thorough, CTR and one other mode per shard)
  for (int mode = 0; mode < 5; mode++) {
    if (!cx.take()) continue;
    vh::Rng r = cx.case_rng();
    uint8_t key[16], iv[16];
    r.fill(key, 16);
    r.fill(iv, 16);
    iv[15] = 0xF0; iv[14] = 0xFF; // wrap the low two bytes early, then run past 2^16 more
    size_t nb = cx.thorough ? ((mode == 2) ? ((size_t)1 << 24) + 70000 : 1100000) : 70000;
    vh::J j;
    j.num("mode", mode).str("key", vh::hex(key, 16)).str("iv", vh::hex(iv, 16)).num("blocks", (long long)nb).str("family", "long");
    cx.begin(j.done());
    cx.rep.count("streams");
    stream_case(cx, mode, key, iv, nb, r, "long");
    cx.rep.dist("class", vh::tuple_hash({mode, 777, (long long)nb}));
    cx.rep.sample(j.done());
  }
}
