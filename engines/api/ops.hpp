// Thin wrappers that drive the real wencry entry points on in-memory streams.
#pragma once
#include "../common/vh.hpp"
#include "../ref/ref.hpp"
#include "cry.h"

#ifndef WENCRY_VERIF_BUF_UNITS
#define VH_CHUNK ((size_t)0x1000000)
#else
#define VH_CHUNK ((size_t)(WENCRY_VERIF_BUF_UNITS) * 16)
#endif

namespace ops {
using vh::bytes;
using vh::MemFile;

struct Result {
  bool ret = false;
  bytes out;                        // final content of the output stream
  std::vector<vh::WriteRec> writes; // writes that reached the output stream
  bytes payload;                    // concatenated payloads if requested
  size_t in_writes = 0;             // writes that reached the INPUT stream (must stay 0)
  size_t bytes_written = 0;         // total bytes the code pushed at the output stream
  size_t oversize_writes = 0;       // writes larger than 256 MiB (never legitimate with these inputs)
  bool in_changed = false;
  bool in_closed = false, out_closed = false;
};

struct EncParams {
  int cmode = 1, hmode = 0, T = 4;
  uint8_t key[16];
  bytes seed; // NUL-free, will be NUL-terminated
  bool echo = false;
};

// ambient caller choices that must not change any result: the progress printer (the CLI default) and the size
// argument, which only feeds the progress display (0 = "unknown" is what a caller without the size passes)
inline bool &force_echo() { static bool e = false; return e; }
inline int &size_hint_mode() { static int m = 0; return m; } // 0 real size, 1 zero, 2 one
inline size_t size_hint(size_t real) { int m = size_hint_mode(); return m == 1 ? 0 : m == 2 ? 1 : real; }
inline void set_ambient(long long idx) { force_echo() = idx % 4 == 1; size_hint_mode() = idx % 6 == 1 ? 1 : idx % 6 == 4 ? 2 : 0; }

inline Result encrypt(const bytes &P, const EncParams &ep, int outbuf = -1 /* -1 default, 0 unbuffered, n>0 size */,
                      bool record_payload = false, size_t fail_read_call = 0, size_t fail_write_call = 0) {
  Result r;
  MemFile in, out;
  in.data = P;
  in.fail_read_call = fail_read_call;
  out.fail_write_call = fail_write_call;
  out.record_payload = record_payload;
  FILE *fi = in.open("r+");
  FILE *fo = out.open("w+", outbuf == 0, outbuf > 0 ? (size_t)outbuf : 0);
  uint8_t key[16];
  memcpy(key, ep.key, 16);
  bytes seed = ep.seed;
  seed.push_back(0);
  {
    Settings st((char)ep.cmode, (char)ep.hmode, !(ep.echo || force_echo()));
    runcrypt runner(fi, fo, key, st, (u8_t)ep.T);
    r.ret = runner.execute_encrypt(size_hint(P.size()), seed.data());
  }
  r.out = out.data;
  r.writes = out.writes;
  r.bytes_written = out.total_written;
  r.oversize_writes = out.oversize_writes;
  r.payload = out.written_bytes;
  r.in_writes = in.writes.size();
  r.in_changed = in.data != P;
  r.in_closed = in.closed;
  r.out_closed = out.closed;
  if (!in.closed) fclose(fi);
  if (!out.closed) fclose(fo);
  return r;
}

inline Result decrypt_or_verify(bool dec, const bytes &F, const uint8_t key_[16], int T, bool echo = false, int outbuf = -1,
                                size_t fail_read_call = 0, size_t fail_write_call = 0) {
  Result r;
  MemFile in, out;
  in.data = F;
  in.fail_read_call = fail_read_call;
  out.fail_write_call = fail_write_call;
  FILE *fi = in.open("r+");
  FILE *fo = out.open("w+", outbuf == 0, outbuf > 0 ? (size_t)outbuf : 0);
  uint8_t key[16];
  memcpy(key, key_, 16);
  {
    Settings st((char)-1, (char)-1, !(echo || force_echo()));
    runcrypt runner(fi, fo, key, st, (u8_t)T);
    r.ret = dec ? runner.execute_decrypt(size_hint(F.size())) : runner.execute_verify(size_hint(F.size()));
  }
  // flush whatever stdio still holds so that "bytes written" is what a real file would receive
  if (!out.closed) fflush(fo);
  r.out = out.data;
  r.writes = out.writes;
  r.bytes_written = out.total_written;
  r.oversize_writes = out.oversize_writes;
  r.in_writes = in.writes.size();
  r.in_changed = in.data != F;
  r.in_closed = in.closed;
  r.out_closed = out.closed;
  if (!in.closed) fclose(fi);
  if (!out.closed) fclose(fo);
  return r;
}
inline Result decrypt(const bytes &F, const uint8_t key[16], int T, bool echo = false) { return decrypt_or_verify(true, F, key, T, echo); }
inline Result verify(const bytes &F, const uint8_t key[16], int T, bool echo = false) { return decrypt_or_verify(false, F, key, T, echo); }

inline std::string params_json(size_t n, const EncParams &ep, uint64_t pseed) {
  vh::J j;
  j.num("n", (long long)n).num("cmode", ep.cmode).num("hmode", ep.hmode).num("T", ep.T).num("chunk", (long long)VH_CHUNK);
  j.str("key", vh::hex(ep.key, 16)).str("seed", vh::hex(ep.seed)).str("pseed", std::to_string(pseed));
  return j.done();
}
// plaintext is regenerated from pseed (kept out of replay files when large)
inline bytes gen_plain(size_t n, uint64_t pseed, int kind = 0) {
  vh::Rng r(pseed);
  bytes p = r.bytes_(n);
  if (kind == 1) std::fill(p.begin(), p.end(), 0);
  if (kind == 2) std::fill(p.begin(), p.end(), 0xff);
  if (kind == 3) // repeated 16-byte block: makes keystream/IV reuse visible
    for (size_t i = 16; i < n; i++) p[i] = p[i % 16];
  return p;
}
inline bytes gen_seed(vh::Rng &r) {
  // the seed is a C string of ANY length (the CLI passes a 256-byte unterminated buffer, so longer ones occur too)
  static const int lens[] = {0, 1, 2, 15, 16, 20, 55, 56, 63, 64, 65, 119, 120, 128, 200, 254, 255, 256, 257, 300, 511, 512, 513, 1000};
  size_t l = r.chance(50) ? (size_t)lens[r.below(sizeof lens / sizeof lens[0])] : (size_t)r.below(r.chance(80) ? 256 : 700);
  bytes s = r.bytes_(l);
  for (auto &c : s)
    if (c == 0) c = 0x80 | (uint8_t)r.below(128); // strlen() ends the seed at the first NUL
  return s;
}
} // namespace ops
