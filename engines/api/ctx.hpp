#pragma once
#include "ops.hpp"
using vh::bytes;

struct Ctx {
  vh::Args args;
  vh::Reporter rep;
  bool thorough;
  uint64_t seed;
  long long shard, nshards, start, only;
  long long idx = -1;
  bool ambient = false; // vary the progress printer and the size argument per case (ops::set_ambient)
  Ctx(int argc, char **argv) : args(argc, argv) {
    thorough = args.s("tier", "quick") == "thorough";
    seed = (uint64_t)args.n("seed", 1);
    shard = args.n("shard", 0);
    nshards = args.n("nshards", 1);
    start = args.n("start", 0);
    only = args.n("only", -1);
    rep.open(args.s("out", "/dev/null"));
  }
  // advance the global case counter; true if this process must run the case
  bool take() {
    idx++;
    if (ambient) ops::set_ambient((long long)(vh::mix(seed ^ 0xA3B1, (uint64_t)idx) >> 7 & 0xFFFFFF));
    if (only >= 0) return idx == only;
    return idx >= start && (idx % nshards) == shard;
  }
  bool done() const { return only >= 0 && idx > only; }
  vh::Rng case_rng(uint64_t salt = 0) const { return vh::Rng(vh::mix(vh::mix(seed, (uint64_t)idx), salt)); }
  void begin(const std::string &desc) { rep.begin(idx, desc); }
};

typedef void (*prop_fn)(Ctx &);
void run_C01(Ctx &);
void run_C02(Ctx &);
void run_C05(Ctx &);
void run_C06(Ctx &);
void run_C07(Ctx &);
void run_C08(Ctx &);
void run_C09(Ctx &);
void run_C10(Ctx &);
void run_C11(Ctx &);
void run_C12(Ctx &);
void run_C13(Ctx &);
void run_C15(Ctx &);
void run_C16(Ctx &);
void run_C18(Ctx &);
