// C05 tamper resistance, C06 wrong key, C11 hostile input, C12 verify == decrypt.
// One corpus generator, four oracles.
#include "ctx.hpp"
#include <functional>

namespace {
struct Base {
  ops::EncParams ep;
  size_t n;
  uint64_t pseed;
  bytes P, F;
};

struct Input {
  const Base *base; // may be null (pure garbage)
  bytes F;
  uint8_t key[16];
  int T;
  std::string kind;  // mutation kind
  long long off = -1, arg = -1;
  bool identical = false; // mutation left the file unchanged
};

std::string field_at(size_t off, int hmode, int T) {
  int hl = ref::hlen_of(hmode);
  if (off < 8) return "magic";
  if (off == 8) return "cmode-byte";
  if (off == 9) return "hmode-byte";
  if (hl > 0 && off < 10 + (size_t)hl) return "tag";
  if (off < 48) return "zero-fill";
  if (off < 48 + 20 * (size_t)T) {
    size_t s = (off - 48) / 20, w = (off - 48) % 20;
    return std::string(s == 0 ? "iv0" : "ivN") + (w < 16 ? "-used" : "-spare");
  }
  return "body";
}

std::string in_desc(const Input &in) {
  vh::J j;
  if (in.base) j.raw("file", ops::params_json(in.base->n, in.base->ep, in.base->pseed));
  else j.str("file", "none");
  j.str("kind", in.kind).num("off", in.off).num("arg", in.arg).num("T", in.T).str("key", vh::hex(in.key, 16));
  if (in.F.size() <= 200) j.str("bytes", vh::hex(in.F));
  else j.num("len", (long long)in.F.size());
  return j.done();
}

bytes genuine_from_reference(const Base &b) {
  return ref::wenc_reference(b.P, b.ep.key, b.ep.cmode, b.ep.hmode, b.ep.seed.data(), b.ep.seed.size(), b.ep.T, VH_CHUNK);
}

std::vector<Base> make_bases(Ctx &cx, bool all) {
  const size_t c = VH_CHUNK;
  size_t ns[] = {0, 1, 15, 16, 17, c - 1, c, 3 * c + 5};
  int Ts[] = {1, 2, 4};
  std::vector<Base> out;
  int k = 0;
  for (int cm = 0; cm < 5; cm++)
    for (int hm = 0; hm < 3; hm++)
      for (int ti = 0; ti < 3; ti++)
        for (int ni = 0; ni < 8; ni++, k++) {
          if (!all) {
            // 15 files: each cmode x hmode once, T and n rotating with the seed
            if (ti != (int)((cm + hm + cx.seed) % 3) || ni != (int)((cm * 3 + hm + cx.seed) % 8)) continue;
          }
          vh::Rng r(vh::mix(cx.seed, 0xBA5E0000 + k));
          Base b;
          b.ep.cmode = cm; b.ep.hmode = hm; b.ep.T = Ts[ti];
          r.fill(b.ep.key, 16);
          b.ep.seed = ops::gen_seed(r);
          b.n = ns[ni];
          b.pseed = r.next();
          b.P = ops::gen_plain(b.n, b.pseed);
          ops::Result e = ops::encrypt(b.P, b.ep);
          b.F = e.ret ? e.out : genuine_from_reference(b); // encryption reporting failure is C01/C02's business
          if (!e.ret) cx.rep.count("genuine_files_taken_from_the_reference_because_encrypt_reported_failure");
          out.push_back(b);
        }
  // always present: files whose authenticated region is longer than the hash refill buffer and not a multiple of
  // 64 bytes, so that the tag also has to protect bytes that arrive through a refill
  for (int ti = 0; ti < 3; ti++) {
    vh::Rng r(vh::mix(cx.seed, 0xB16F11E + ti));
    Base b;
    b.ep.cmode = (int)((cx.seed + ti) % 5); b.ep.hmode = (int)((cx.seed + 2 * ti) % 3); b.ep.T = Ts[ti];
    r.fill(b.ep.key, 16);
    b.ep.seed = ops::gen_seed(r);
    b.n = 6 * c + 9 + 16 * (size_t)r.below(3);
    b.pseed = r.next();
    b.P = ops::gen_plain(b.n, b.pseed);
    ops::Result e = ops::encrypt(b.P, b.ep);
    b.F = e.ret ? e.out : genuine_from_reference(b); // encryption reporting failure is C01/C02's business
    if (!e.ret) cx.rep.count("genuine_files_taken_from_the_reference_because_encrypt_reported_failure");
    out.push_back(b);
  }
  // always present: highly repetitive plaintext (zero-filled / one repeated block) in ECB, where consecutive cipher
  // blocks - and therefore consecutive 64-byte units of the authenticated stream - repeat
  for (int rp = 0; rp < 3; rp++) {
    vh::Rng r(vh::mix(cx.seed, 0x2E9E47 + rp));
    Base b;
    b.ep.cmode = 0; b.ep.hmode = (rp + 2) % 3; b.ep.T = Ts[rp];
    r.fill(b.ep.key, 16);
    b.ep.seed = ops::gen_seed(r);
    b.n = 6 * c + 9;
    b.pseed = r.next();
    b.P = ops::gen_plain(b.n, b.pseed, rp == 0 ? 1 : 3);
    ops::Result e = ops::encrypt(b.P, b.ep);
    b.F = e.ret ? e.out : genuine_from_reference(b);
    out.push_back(b);
  }
  // always present: keys with special shapes (zero bytes at various positions, the project's own test key)
  for (int ks = 0; ks < 5; ks++) {
    vh::Rng r(vh::mix(cx.seed, 0x4E750 + ks));
    Base b;
    b.ep.cmode = (int)((cx.seed + ks) % 5); b.ep.hmode = ks % 3; b.ep.T = Ts[ks % 3];
    r.fill(b.ep.key, 16);
    if (ks == 0) for (int i = 0; i < 16; i++) b.ep.key[i] = (uint8_t)(i * 0x11);
    if (ks == 1) b.ep.key[5] = 0;
    if (ks == 2) b.ep.key[14] = 0;
    if (ks == 3) memset(b.ep.key, 0, 16);
    if (ks == 4) { b.ep.key[0] = 0; b.ep.key[15] = 0; }
    b.ep.seed = ops::gen_seed(r);
    b.n = 40 + (size_t)r.below(60);
    b.pseed = r.next();
    b.P = ops::gen_plain(b.n, b.pseed);
    ops::Result e = ops::encrypt(b.P, b.ep);
    b.F = e.ret ? e.out : genuine_from_reference(b); // encryption reporting failure is C01/C02's business
    if (!e.ret) cx.rep.count("genuine_files_taken_from_the_reference_because_encrypt_reported_failure");
    out.push_back(b);
  }
  return out;
}

typedef std::function<void(Input &)> Sink;

// every structural mutation of a genuine file
void gen_mutants(Ctx &cx, const Base &b, const Sink &sink, bool light) {
  const size_t c = VH_CHUNK;
  const bytes &F = b.F;
  auto emit = [&](const char *kind, long long off, long long arg, const bytes &M) {
    if (!cx.take()) return;
    Input in;
    in.base = &b; in.F = M; in.T = b.ep.T; in.kind = kind; in.off = off; in.arg = arg;
    memcpy(in.key, b.ep.key, 16);
    in.identical = (M == F);
    sink(in);
  };
  size_t bodyoff = 48 + 20 * (size_t)b.ep.T;
  // 1. every bit
  for (size_t o = 0; o < F.size(); o++)
    for (int bit = 0; bit < 8; bit++) {
      if (light && o >= 48 && (o * 8 + bit) % 5) continue;
      bytes M = F; M[o] ^= (uint8_t)(1 << bit);
      emit("bitflip", (long long)o, bit, M);
    }
  // 2. byte := 00 / FF / +1
  for (size_t o = 0; o < F.size(); o++) {
    if (light && o % 3) continue;
    for (int v = 0; v < 3; v++) {
      bytes M = F; M[o] = v == 0 ? 0 : v == 1 ? 0xFF : (uint8_t)(M[o] + 1);
      emit("byteset", (long long)o, v, M);
    }
  }
  // 3. truncation to every length
  for (size_t l = 0; l < F.size(); l++) {
    bytes M(F.begin(), F.begin() + l);
    emit("truncate", (long long)l, -1, M);
  }
  // 4. extension
  {
    size_t lens[] = {1, 16, c};
    for (size_t l : lens)
      for (int how = 0; how < 3; how++) {
        bytes M = F;
        vh::Rng r(vh::mix(cx.seed, l * 7 + how));
        size_t tl = std::min(l, F.size());
        for (size_t i = 0; i < l; i++) M.push_back(how == 0 ? 0 : how == 1 ? (uint8_t)r.next() : F[F.size() - tl + (i % tl)]);
        emit("extend", (long long)l, how, M);
      }
  }
  // 5. delete / insert 1 and 16 bytes at every offset
  for (size_t o = 0; o <= F.size(); o++) {
    if (light && o % 4) continue;
    for (size_t l : {(size_t)1, (size_t)16}) {
      if (o + l <= F.size()) {
        bytes M = F; M.erase(M.begin() + o, M.begin() + o + l);
        emit("delete", (long long)o, (long long)l, M);
      }
      bytes M = F;
      vh::Rng r(vh::mix(cx.seed, o * 31 + l));
      bytes ins = r.bytes_(l);
      M.insert(M.begin() + o, ins.begin(), ins.end());
      emit("insert", (long long)o, (long long)l, M);
    }
  }
  // 6. swaps: body blocks, chunks, IV slots
  size_t nblk = (F.size() - bodyoff) / 16;
  for (size_t i = 0; i < nblk; i++)
    for (size_t j = i + 1; j < nblk; j++) {
      if (light && (i + j) % 3) continue;
      bytes M = F;
      std::swap_ranges(M.begin() + bodyoff + 16 * i, M.begin() + bodyoff + 16 * i + 16, M.begin() + bodyoff + 16 * j);
      emit("swap-blocks", (long long)i, (long long)j, M);
    }
  size_t nch = (F.size() - bodyoff) / c;
  for (size_t i = 0; i < nch; i++)
    for (size_t j = i + 1; j < nch; j++) {
      bytes M = F;
      std::swap_ranges(M.begin() + bodyoff + c * i, M.begin() + bodyoff + c * i + c, M.begin() + bodyoff + c * j);
      emit("swap-chunks", (long long)i, (long long)j, M);
    }
  for (int i = 0; i < b.ep.T; i++)
    for (int j = i + 1; j < b.ep.T; j++) {
      bytes M = F;
      std::swap_ranges(M.begin() + 48 + 20 * i, M.begin() + 48 + 20 * i + 20, M.begin() + 48 + 20 * j);
      emit("swap-ivs", i, j, M);
    }
  // 7. header mode bytes := every value
  for (int o = 8; o <= 9; o++)
    for (int v = 0; v < 256; v++) {
      bytes M = F; M[o] = (uint8_t)v;
      emit("hdr-value", o, v, M);
    }
  // 7b. a mode byte set to every value TOGETHER with a second, authenticated change (two cooperating weaknesses:
  //     a header value that switches authentication off must not let another modification through)
  if (!light)
    for (int o = 8; o <= 9; o++)
      for (int v = 0; v < 256; v++)
        for (int second = 0; second < 4; second++) {
          bytes M = F;
          M[o] = (uint8_t)v;
          if (second == 0) M[bodyoff + (size_t)(v % (F.size() - bodyoff))] ^= 0x01;          // body bit
          else if (second == 1) M[48 + (size_t)(v % 16)] ^= 0x80;                              // IV bit
          else if (second == 2) { if (M.size() >= bodyoff + 32) M.resize(M.size() - 16); else M.insert(M.end(), 16, 0x5a); } // whole block removed / added
          else { memset(M.data() + 10, 0, 38); M[bodyoff] ^= 0xff; }                            // tag wiped + body change
          emit("hdr-value+second", o, v * 4 + second, M);
        }
  // 8. unauthenticated area randomised together with hostile mode bytes (reaches the pipeline)
  for (int k = 0; k < (light ? 8 : 40); k++) {
    bytes M = F;
    vh::Rng r(vh::mix(cx.seed, 0x5AFE + k));
    int hl = ref::hlen_of(b.ep.hmode);
    for (size_t o = 10 + hl; o < 48; o++) M[o] = (uint8_t)r.next();
    if (k % 2) M[8] = (uint8_t)r.below(5);
    emit("zerofill-random", 10 + hl, k, M);
  }
  // 9. random multi-edits
  for (int k = 0; k < (light ? 10 : 60); k++) {
    bytes M = F;
    vh::Rng r(vh::mix(cx.seed, 0xED17 + k));
    int edits = 2 + (int)r.below(4);
    for (int e = 0; e < edits; e++) M[r.below(M.size())] ^= (uint8_t)(1 + r.below(255));
    emit("multi-edit", edits, k, M);
  }
}

void gen_wrongkeys(Ctx &cx, const Base &b, const Sink &sink, int nrandom) {
  auto emit = [&](const char *kind, long long arg, const uint8_t k[16]) {
    if (!cx.take()) return;
    Input in;
    in.base = &b; in.F = b.F; in.T = b.ep.T; in.kind = kind; in.arg = arg;
    memcpy(in.key, k, 16);
    in.identical = !memcmp(k, b.ep.key, 16);
    sink(in);
  };
  uint8_t k[16];
  for (int bit = 0; bit < 128; bit++) {
    memcpy(k, b.ep.key, 16); k[bit / 8] ^= (uint8_t)(1 << (bit % 8));
    emit("key-bitflip", bit, k);
  }
  vh::Rng r(vh::mix(cx.seed, 0x4E7));
  for (int i = 0; i < nrandom; i++) { r.fill(k, 16); emit("key-random", i, k); }
  memcpy(k, b.ep.key, 16); r.fill(k + 8, 8); emit("key-first8-equal", 0, k);
  memcpy(k, b.ep.key, 16); r.fill(k, 8); emit("key-last8-equal", 0, k);
  memset(k, 0, 16); emit("key-zero", 0, k);
  memset(k, 0xff, 16); emit("key-ff", 0, k);
  for (int rot = 1; rot < 16; rot++) {
    for (int i = 0; i < 16; i++) k[i] = b.ep.key[(i + rot) % 16];
    emit("key-rotated", rot, k);
  }
  memcpy(k, b.ep.key, 16); std::reverse(k, k + 16); emit("key-reversed", 0, k);
  for (int i = 0; i < 16; i++) { memcpy(k, b.ep.key, 16); k[i] = 0; emit("key-byte-zeroed", i, k); }
}

void gen_garbage(Ctx &cx, const Sink &sink, bool thorough) {
  auto emit = [&](const char *kind, long long off, long long arg, const bytes &M, int T) {
    if (!cx.take()) return;
    Input in;
    in.base = nullptr; in.F = M; in.T = T; in.kind = kind; in.off = off; in.arg = arg;
    vh::Rng r(vh::mix(cx.seed, (uint64_t)cx.idx));
    r.fill(in.key, 16);
    sink(in);
  };
  int Ts[] = {1, 2, 4};
  // all strings of length 0..2 (and 3 in thorough, sampled otherwise)
  emit("tiny", 0, 0, bytes(), 4);
  for (int a = 0; a < 256; a++) emit("tiny", 1, a, bytes{(uint8_t)a}, 1);
  for (int a = 0; a < 65536; a += thorough ? 1 : 97) emit("tiny", 2, a, bytes{(uint8_t)(a >> 8), (uint8_t)a}, 2);
  vh::Rng r(vh::mix(cx.seed, 0x6A4B));
  for (int k = 0; k < (thorough ? 20000 : 600); k++) { bytes m = r.bytes_(3); emit("tiny", 3, k, m, Ts[k % 3]); }
  // random strings of every length 0..200
  for (int rep = 0; rep < (thorough ? 20 : 2); rep++)
    for (size_t l = 0; l <= 200; l++) emit("random", (long long)l, rep, r.bytes_(l), Ts[(l + rep) % 3]);
  // right magic, every (byte8, byte9), random rest, lengths around the header edges
  size_t lens[] = {8, 9, 10, 11, 47, 48, 49, 73, 74, 75, 83, 84, 100, 148, 300};
  for (int b8 = 0; b8 < 256; b8++)
    for (int b9 = 0; b9 < 256; b9++) {
      if (!thorough && ((b8 * 256 + b9) % 23) && !(b8 < 6 && b9 < 4)) continue;
      size_t l = lens[(b8 + b9) % 15];
      bytes m = r.bytes_(l);
      memcpy(m.data(), ref::MAGIC, 8);
      if (l > 8) m[8] = (uint8_t)b8;
      if (l > 9) m[9] = (uint8_t)b9;
      emit("magic+modes", b8, b9, m, Ts[(b8 + b9) % 3]);
    }
}


// files that carry a VALID tag for the key but were not produced by encryption (a key holder re-tagged arbitrary
// bytes): outside C11's domain, inside C12's ("for every file and key") and C04's ("every input")
void gen_forged(Ctx &cx, const Sink &sink, bool thorough) {
  int Ts[] = {1, 2, 4, 8};
  for (int ti = 0; ti < 4; ti++)
    for (int hm = 0; hm < 3; hm++) {
      size_t bodyoff = 48 + 20 * (size_t)Ts[ti];
      std::vector<size_t> lens = {74, 75, 80, 100, bodyoff - 1, bodyoff, bodyoff + 1, bodyoff + 15, bodyoff + 16, bodyoff + 17, bodyoff + 32, bodyoff + VH_CHUNK, bodyoff + VH_CHUNK + 5, bodyoff + 3 * VH_CHUNK};
      for (size_t L : lens) {
        if (L < 74) continue;
        for (int rep = 0; rep < (thorough ? 6 : 2); rep++) {
          if (!cx.take()) continue;
          vh::Rng r(vh::mix(cx.seed, (uint64_t)cx.idx + 0xF06));
          Input in;
          in.base = nullptr; in.T = Ts[ti]; in.kind = "forged-tag"; in.off = (long long)L; in.arg = hm;
          r.fill(in.key, 16);
          in.F = r.bytes_(L);
          memcpy(in.F.data(), ref::MAGIC, 8);
          in.F[8] = (uint8_t)r.below(5);
          in.F[9] = (uint8_t)hm;
          memset(in.F.data() + 10, 0, 38);
          bytes tag = ref::hmac(hm, in.key, 16, in.F.data() + 48, L - 48);
          memcpy(in.F.data() + 10, tag.data(), tag.size());
          sink(in);
        }
      }
    }
}

struct Outcome {
  ops::Result v, d;
};
// echo: the result printer (CLI default) is exercised on every second case - diagnostics are code too
Outcome run_both(const Input &in, bool echo = false) {
  Outcome o;
  o.v = ops::verify(in.F, in.key, in.T, echo);
  o.d = ops::decrypt(in.F, in.key, in.T, echo);
  return o;
}
} // namespace

// ----------------------------------------------------------------------------------------------
void run_C05(Ctx &cx) {
  cx.ambient = true;
  std::vector<Base> bases = make_bases(cx, cx.thorough);
  cx.rep.count("genuine_files", (long long)bases.size());
  Sink sink = [&](Input &in) {
    std::string desc = in_desc(in);
    cx.begin(desc);
    cx.rep.count("mutants");
    if (in.identical) { cx.rep.count("mutants_identical_to_original"); }
    // the original is accepted first in the same process (every third case): whatever an accepted operation remembers
    // about (file, key) must not let the modified copy through afterwards
    if (cx.idx % 3 == 0) {
      ops::Result g = ops::verify(in.base->F, in.base->ep.key, in.base->ep.T);
      cx.rep.count("original_verified_first");
      if (!g.ret) cx.rep.violation("C05|genuine-file-rejected", "the unmodified file no longer verifies", desc);
    }
    Outcome o = run_both(in);
    const Base &b = *in.base;
    bool accepted = o.v.ret || o.d.ret;
    if (!accepted) {
      cx.rep.count("rejected");
      cx.rep.dist("rejected_offsets", vh::tuple_hash({(long long)(&b - &bases[0]), in.off, (long long)vh::fnv(in.kind.data(), in.kind.size())}));
      return;
    }
    cx.rep.count("accepted");
    bool same = o.d.ret && o.d.out == b.P;
    std::string fld = in.off >= 0 && (in.kind == "bitflip" || in.kind == "byteset" || in.kind == "hdr-value")
                          ? field_at((size_t)in.off, b.ep.hmode, b.ep.T) : in.kind;
    if (same) {
      cx.rep.count("accepted_identical_plaintext");
      cx.rep.count("accepted_identical@" + (in.identical ? std::string("unchanged-file") : fld));
      if (!in.identical) cx.rep.dist("class", vh::tuple_hash({(long long)(&b - &bases[0]), in.off, (long long)vh::fnv(in.kind.data(), in.kind.size())}));
      return;
    }
    // accepted, but plaintext differs (or verify said yes and decrypt said no)
    std::string key;
    bool single_byte8 = (in.kind == "bitflip" || in.kind == "byteset" || in.kind == "hdr-value") && in.off == 8;
    if (single_byte8 && in.F[8] <= 4) key = "C05|accepted-different|offset=8|to-valid-cmode";
    else if (in.kind == "zerofill-random" && in.F[8] != b.F[8] && in.F[8] <= 4) key = "C05|accepted-different|offset=8|to-valid-cmode";
    else key = "C05|accepted-different|" + in.kind + "|" + fld;
    vh::J j;
    j.boolean("verify", o.v.ret).boolean("decrypt", o.d.ret).num("out_len", (long long)o.d.out.size()).num("want_len", (long long)b.P.size());
    j.str("out", vh::hexcap(o.d.out)).str("want", vh::hexcap(b.P));
    cx.rep.violation(key, "a modified file was accepted and the plaintext delivered differs from the original", j.done());
  };
  for (auto &b : bases) gen_mutants(cx, b, sink, false);
  for (size_t i = 0; i < bases.size() && i < 3; i++) cx.rep.sample(ops::params_json(bases[i].n, bases[i].ep, bases[i].pseed));
}

void run_C06(Ctx &cx) {
  cx.ambient = true;
  std::vector<Base> bases = make_bases(cx, cx.thorough);
  cx.rep.count("genuine_files", (long long)bases.size());
  Sink sink = [&](Input &in) {
    std::string desc = in_desc(in);
    cx.begin(desc);
    if (in.identical) return; // not a wrong key
    cx.rep.count("trials");
    if (cx.idx % 2 == 0) { // the right key is used first in the same process, then the wrong one
      ops::Result g = ops::verify(in.base->F, in.base->ep.key, in.base->ep.T);
      cx.rep.count("right_key_used_first");
      if (!g.ret) cx.rep.violation("C06|right-key-rejected", "the right key no longer verifies", desc);
    }
    Outcome o = run_both(in);
    vh::J j;
    j.boolean("verify", o.v.ret).boolean("decrypt", o.d.ret).num("writes", (long long)o.d.writes.size()).num("out_len", (long long)o.d.out.size());
    if (o.v.ret) cx.rep.violation("C06|verify-accepted|" + in.kind, "verification succeeded with a wrong key", j.done());
    if (o.d.ret) cx.rep.violation("C06|decrypt-accepted|" + in.kind, "decryption succeeded with a wrong key", j.done());
    if (!o.d.writes.empty() || !o.d.out.empty()) {
      cx.rep.violation("C06|output-written|" + in.kind, "decryption with a wrong key wrote bytes to its output", j.done());
      cx.rep.count("bytes_written_on_failure", (long long)o.d.out.size());
    }
    if (!o.v.writes.empty()) cx.rep.violation("C06|verify-wrote|" + in.kind, "verification wrote to its output stream", j.done());
    if (!o.v.ret && !o.d.ret && o.d.writes.empty()) {
      cx.rep.count("rejected_without_output");
      cx.rep.dist("class", vh::tuple_hash({(long long)(in.base - &bases[0]), (long long)vh::fnv(in.kind.data(), in.kind.size()), in.arg}));
    }
    if (cx.idx % 4001 == 0) cx.rep.sample(desc);
  };
  for (auto &b : bases) gen_wrongkeys(cx, b, sink, cx.thorough ? 1024 : 256);
}

static void c11_oracle(Ctx &cx, const Input &in, const Outcome &o, const std::string &desc) {
  int auth = ref::wenc_authentic(in.F, in.key);
  cx.rep.count("result_auth_code_" + std::to_string(auth));
  size_t bodyoff = 48 + 20 * (size_t)in.T;
  size_t body = in.F.size() > bodyoff ? in.F.size() - bodyoff : 0;
  vh::J j;
  j.boolean("verify", o.v.ret).boolean("decrypt", o.d.ret).num("ref_auth_code", auth).num("out_len", (long long)o.d.out.size()).num("body", (long long)body);
  std::string cls = in.base ? in.kind : "garbage-" + in.kind;
  if ((o.v.ret || o.d.ret) && auth != 0)
    cx.rep.violation("C11|accepted-not-authentic|" + cls, "success reported for a file that is not authentic", j.done());
  if (!o.d.ret && (!o.d.writes.empty() || !o.d.out.empty() || o.d.bytes_written))
    cx.rep.violation("C11|output-on-failure|" + cls, "a failing decryption wrote bytes to its output", j.done());
  if (o.d.ret) {
    cx.rep.count("reached_pipeline");
    if (o.d.out.size() > body || o.d.bytes_written > body || o.d.oversize_writes)
      cx.rep.violation("C11|output-larger-than-body|" + cls, "decryption wrote more bytes than the ciphertext body holds", j.done());
    if (body) cx.rep.maxc("max_out_over_body_permille", (long long)(1000 * o.d.out.size() / body));
  } else
    cx.rep.count("failed_cleanly");
  if (!o.v.writes.empty()) cx.rep.violation("C11|verify-wrote|" + cls, "verification wrote to its output stream", j.done());
  cx.rep.dist("class", vh::tuple_hash({(long long)vh::fnv(cls.data(), cls.size()), in.off, in.arg, (long long)in.F.size()}));
}

void run_C11(Ctx &cx) {
  cx.ambient = true;
  std::vector<Base> bases = make_bases(cx, cx.thorough);
  Sink sink = [&](Input &in) {
    std::string desc = in_desc(in);
    cx.begin(desc);
    cx.rep.count("inputs");
    cx.rep.count(std::string("inputs_") + (in.base ? "from-genuine-" + in.kind : "garbage-" + in.kind));
    bool echo = (cx.idx & 1) != 0;
    if (echo) cx.rep.count("inputs_with_echo_on");
    Outcome o = run_both(in, echo);
    c11_oracle(cx, in, o, desc);
    if (cx.idx % 20011 == 0) cx.rep.sample(desc);
  };
  gen_garbage(cx, sink, cx.thorough);
  for (auto &b : bases) gen_mutants(cx, b, sink, !cx.thorough);
}

void run_C12(Ctx &cx) {
  cx.ambient = true;
  std::vector<Base> bases = make_bases(cx, cx.thorough);
  Sink sink = [&](Input &in) {
    std::string desc = in_desc(in);
    cx.begin(desc);
    cx.rep.count("pairs");
    Outcome o;
    if (in.kind == "forged-tag") {
      o.v = ops::verify(in.F, in.key, in.T);
      cx.begin(desc.substr(0, desc.size() - 1) + ",\"verify_result\":" + (o.v.ret ? "true" : "false") + "}");
      cx.rep.counters["cases"]--;
      o.d = ops::decrypt(in.F, in.key, in.T);
    } else
      o = run_both(in, (cx.idx & 1) != 0);
    vh::J j;
    j.boolean("verify", o.v.ret).boolean("decrypt", o.d.ret);
    std::string cls = in.base ? in.kind : "garbage-" + in.kind;
    if (o.v.ret != o.d.ret)
      cx.rep.violation(std::string("C12|disagree|verify=") + (o.v.ret ? "1" : "0") + "|" + cls, "verification and decryption disagree on the same file and key", j.done());
    else
      cx.rep.count(o.v.ret ? "agree_true" : "agree_false");
    if (!o.v.writes.empty() || !o.v.out.empty()) cx.rep.violation("C12|verify-wrote|" + cls, "verification produced output", j.done());
    if (o.v.in_writes || o.v.in_changed) cx.rep.violation("C12|input-modified|verify|" + cls, "verification wrote to its input", j.done());
    if (o.d.in_writes || o.d.in_changed) cx.rep.violation("C12|input-modified|decrypt|" + cls, "decryption wrote to its input", j.done());
    cx.rep.count("inputs_hashed", 2);
    cx.rep.dist("class", vh::tuple_hash({(long long)vh::fnv(cls.data(), cls.size()), in.off, in.arg, (long long)in.F.size(), o.v.ret}));
    if (cx.idx % 20011 == 0) cx.rep.sample(desc);
  };
  // genuine files themselves (agree-true), incl. chunk-boundary lengths
  for (auto &b : bases) {
    if (!cx.take()) continue;
    Input in;
    in.base = &b; in.F = b.F; in.T = b.ep.T; in.kind = "genuine"; memcpy(in.key, b.ep.key, 16);
    sink(in);
  }
  {
    const size_t c = VH_CHUNK;
    for (size_t n = c - 17; n <= 2 * c + 1; n++) {
      if (!cx.take()) continue;
      vh::Rng r = cx.case_rng();
      Base b;
      b.ep.cmode = (int)r.below(5); b.ep.hmode = (int)r.below(3); b.ep.T = 1 + (int)r.below(5);
      r.fill(b.ep.key, 16);
      b.ep.seed = ops::gen_seed(r);
      b.n = n; b.pseed = r.next(); b.P = ops::gen_plain(n, b.pseed);
      b.F = ops::encrypt(b.P, b.ep).out;
      Input in;
      in.base = &b; in.F = b.F; in.T = b.ep.T; in.kind = "genuine-boundary"; memcpy(in.key, b.ep.key, 16);
      sink(in);
    }
  }
  gen_garbage(cx, sink, cx.thorough);
  gen_forged(cx, sink, cx.thorough);
  for (auto &b : bases) {
    gen_mutants(cx, b, sink, !cx.thorough);
    gen_wrongkeys(cx, b, sink, cx.thorough ? 256 : 32);
  }
}
