// C18: recover the IV every cipher stream ACTUALLY started from (from key, plaintext, ciphertext, with the
// independent reference cipher) and monitor distinctness, seed dependence and keystream reuse.
#include "ctx.hpp"
#include <array>
#include <map>
#include <unordered_map>
#include "aesmode.h"

namespace {
typedef std::array<uint8_t, 16> blk;
blk xor16(const uint8_t *a, const uint8_t *b) {
  blk r;
  for (int i = 0; i < 16; i++) r[i] = a[i] ^ b[i];
  return r;
}
blk used_iv(int cmode, const uint8_t key[16], const uint8_t *p0, const uint8_t *c0) {
  blk r;
  if (cmode == 1) { // CBC: c0 = E(p0 ^ iv)
    uint8_t d[16];
    ref::aes_block(false, key, c0, d);
    r = xor16(d, p0);
  } else { // CFB / OFB / CTR: c0 = E(iv) ^ p0
    blk x = xor16(c0, p0);
    ref::aes_block(false, key, x.data(), r.data());
  }
  return r;
}
} // namespace

// One stream longer than 2^24 blocks, driven through the product's own mode object with an all-zero plaintext, so
// the output IS the keystream.  Monitors: (a) the first 4096 keystream blocks never come back later in the stream
// (a counter that cycles returns to where it started), (b) Brent's cycle search over the whole stream (cycles that do
// not go through the start), (c) block i and block i + 2^k (k = 8, 16, 24) differ.
static void long_streams(Ctx &cx) {
  const size_t N = ((size_t)1 << 24) + 8192, HEAD = 4096;
  static const int modes[] = {2, 4, 2, 2};
  for (int v = 0; v < (cx.thorough ? 12 : 4); v++) {
    if (!cx.take()) continue;
    vh::Rng r = cx.case_rng();
    int mode = modes[v % 4];
    uint8_t key[16], ivc[20];
    r.fill(key, 16);
    memset(ivc, 0x5A, 20);
    r.fill(ivc, 16);
    if (v % 4 == 2) memset(ivc + 13, 0xFF, 3), ivc[15] = 0xF0;   // low counter bytes about to carry into byte 12
    if (v % 4 == 3) memset(ivc + 8, 0xFF, 8), ivc[15] = 0x00;    // carry out of the low 64 bits early in the stream
    vh::J dj;
    dj.num("mode", mode).str("key", vh::hex(key, 16)).str("iv", vh::hex(ivc, 16)).num("blocks", (long long)N);
    std::string desc = dj.done();
    cx.begin(desc);
    AesFactory f(key);
    f.loadiv(ivc);
    Aesmode *m = f.createCryMaster(true, (u8_t)mode);
    if (!m) { cx.rep.violation("C18|long-stream|factory-null", "no mode object", desc); continue; }
    std::unordered_map<uint64_t, std::pair<uint64_t, uint32_t>> head; // first 8 bytes -> (second 8 bytes, index)
    head.reserve(HEAD * 2);
    std::vector<uint8_t> lag8(16 * 256); // the last 256 blocks: distance 2^8
    std::vector<uint8_t> samp;           // blocks with (i mod 2^16) < 16, in order: distance 2^16
    blk tort{};                  // Brent
    size_t power = 1, lam = 0;
    bool reuse_head = false, reuse_brent = false, reuse_lag = false;
    size_t w_a = 0, w_b = 0;
    uint8_t buf[16 * 256];
    for (size_t done = 0; done < N && !(reuse_head || reuse_brent || reuse_lag); done += 256) {
      memset(buf, 0, sizeof buf);
      for (int i = 0; i < 256; i++) m->runcry(buf + 16 * i);
      for (int i = 0; i < 256; i++) {
        size_t idx = done + i;
        const uint8_t *b = buf + 16 * i;
        uint64_t lo, hi;
        memcpy(&lo, b, 8); memcpy(&hi, b + 8, 8);
        if (idx < HEAD) {
          auto it = head.find(lo);
          if (it != head.end() && it->second.first == hi) { reuse_head = true; w_a = it->second.second; w_b = idx; break; }
          head[lo] = std::make_pair(hi, (uint32_t)idx);
        } else {
          auto it = head.find(lo);
          if (it != head.end() && it->second.first == hi) { reuse_head = true; w_a = it->second.second; w_b = idx; break; }
        }
        if (idx > 0) {
          if (!memcmp(tort.data(), b, 16)) { reuse_brent = true; w_a = idx - lam - 1; w_b = idx; break; }
          if (++lam == power) { memcpy(tort.data(), b, 16); power *= 2; lam = 0; }
        } else memcpy(tort.data(), b, 16);
        if (idx >= 256 && !memcmp(lag8.data() + 16 * (idx % 256), b, 16)) { reuse_lag = true; w_a = idx - 256; w_b = idx; break; }
        memcpy(lag8.data() + 16 * (idx % 256), b, 16);
        if ((idx & 0xFFFF) < 16) {
          size_t k = (idx >> 16) * 16 + (idx & 0xFFFF);
          if (samp.size() < 16 * (k + 1)) samp.resize(16 * (k + 1));
          memcpy(samp.data() + 16 * k, b, 16);
          if (k >= 16 && !memcmp(samp.data() + 16 * (k - 16), b, 16)) { reuse_lag = true; w_a = idx - 65536; w_b = idx; break; }
        }
      }
    }
    delete m;
    cx.rep.count("long_streams");
    cx.rep.count("keystream_blocks_checked", (long long)N);
    cx.rep.maxc("longest_stream_blocks", (long long)N);
    if (reuse_head || reuse_brent || reuse_lag) {
      vh::J j;
      j.raw("stream", desc).num("block_a", (long long)w_a).num("block_b", (long long)w_b).num("distance", (long long)(w_b - w_a));
      cx.rep.violation(std::string("C18|keystream-reuse|within-stream|long|") + (mode == 2 ? "CTR" : "OFB"),
                       "a keystream block came back later in the same stream", j.done());
    }
    cx.rep.dist("class", vh::tuple_hash({mode, v, 424242}));
  }
}

void run_C18(Ctx &cx) {
  if (cx.args.s("sub") == "long") { long_streams(cx); return; }
  const size_t c = VH_CHUNK;
  int nseeds = cx.thorough ? 40 : 6;
  for (int T = 2; T <= 16; T++)
    for (int cmode = 1; cmode <= 4; cmode++)
      for (int pk = 0; pk < 2; pk++) // plaintext kind: random / all chunks equal
        for (int si = 0; si < nseeds; si++) {
          if (!cx.take()) continue;
          vh::Rng r = cx.case_rng();
          ops::EncParams ep;
          ep.cmode = cmode; ep.hmode = (int)r.below(3); ep.T = T;
          r.fill(ep.key, 16);
          ep.seed = ops::gen_seed(r);
          if (ep.seed.empty()) ep.seed.push_back(0x41);
          size_t nchunks = 2 * (size_t)T + 1;
          size_t n = nchunks * c - 1 - (size_t)r.below(15); // last chunk carries the padding
          uint64_t pseed = r.next();
          bytes P = ops::gen_plain(n, pseed);
          if (pk == 1)
            for (size_t i = c; i < n; i++) P[i] = P[i % c]; // every chunk has the same content
          vh::J dj;
          dj.raw("file", ops::params_json(n, ep, pseed)).num("equal_chunks", pk);
          std::string desc = dj.done();
          cx.begin(desc);
          ops::Result e = ops::encrypt(P, ep);
          cx.rep.count("files");
          size_t bodyoff = 48 + 20 * (size_t)T;
          if (!e.ret || e.out.size() != bodyoff + 16 * (n / 16 + 1)) { cx.rep.violation("C18|encrypt-failed", "could not produce a file of the expected size", desc); continue; }
          const uint8_t *body = e.out.data() + bodyoff;
          const uint8_t *hdr = e.out.data() + 48;
          // (1) IV every stream started from
          std::vector<blk> iv(T);
          for (int j = 0; j < T; j++) iv[j] = used_iv(cmode, ep.key, P.data() + j * c, body + j * c);
          bool shared_slot0 = false, shared_other = false;
          int own_slot = 0;
          for (int j = 0; j < T; j++) {
            if (!memcmp(iv[j].data(), hdr + 20 * j, 16)) own_slot++;
            for (int k2 = j + 1; k2 < T; k2++)
              if (iv[j] == iv[k2]) {
                if (!memcmp(iv[j].data(), hdr, 16)) shared_slot0 = true;
                else shared_other = true;
              }
          }
          cx.rep.count("streams_checked", T);
          cx.rep.count("streams_started_from_own_header_slot", own_slot);
          if (shared_slot0) {
            vh::J j;
            j.num("T", T).num("cmode", cmode).str("iv0", vh::hex(hdr, 16));
            cx.rep.violation("C18|stream-iv=header-slot-0", "two or more cipher streams of one file were started from the same IV (header slot 0)", j.done());
          }
          if (shared_other) cx.rep.violation("C18|stream-iv-shared|other", "two cipher streams were started from the same IV (not header slot 0)", desc);
          // (2) header slots pairwise distinct
          for (int a = 0; a < T; a++)
            for (int b = a + 1; b < T; b++)
              if (!memcmp(hdr + 20 * a, hdr + 20 * b, 20)) {
                vh::J j;
                j.num("slot_a", a).num("slot_b", b);
                cx.rep.violation("C18|header-slots-identical", "two IV slots in the header are identical", j.done());
                a = T;
                break;
              }
          // (3) seed dependence: flip one bit of the seed
          {
            ops::EncParams ep2 = ep;
            size_t q = (size_t)r.below(ep2.seed.size());
            uint8_t nb = ep2.seed[q] ^ (uint8_t)(1 << r.below(8));
            if (nb == 0) nb = ep2.seed[q] ^ 0x40;
            if (nb == 0) nb = 1;
            ep2.seed[q] = nb;
            ops::Result e2 = ops::encrypt(P, ep2);
            cx.rep.count("seed_pairs");
            if (e2.ret && e2.out.size() == e.out.size()) {
              int same_slots = 0;
              for (int a = 0; a < T; a++) same_slots += !memcmp(e2.out.data() + 48 + 20 * a, hdr + 20 * a, 20);
              if (same_slots) {
                vh::J j;
                j.num("slots_unchanged", same_slots).num("T", T);
                cx.rep.violation(same_slots == T ? "C18|iv-independent-of-seed|all-slots" : "C18|iv-independent-of-seed|some-slots", "IV slots did not change when the seed changed", j.done());
              }
              blk iv2 = used_iv(cmode, ep2.key, P.data(), e2.out.data() + bodyoff);
              if (iv2 == iv[0]) cx.rep.violation("C18|iv-independent-of-seed|used-iv", "the IV actually used did not change when the seed changed", desc);
            }
          }
          // (4) stream modes: a keystream block used for two plaintext blocks
          size_t nblocks = (e.out.size() - bodyoff) / 16;
          bytes Ppad = ref::pkcs7(P);
          if (cmode == 2 || cmode == 4) {
            std::map<blk, size_t> seen;
            bool within = false, across_distinct = false, across_shared = false;
            for (size_t i = 0; i < nblocks; i++) {
              blk ks = xor16(body + 16 * i, Ppad.data() + 16 * i);
              auto it = seen.find(ks);
              if (it == seen.end()) { seen[ks] = i; continue; }
              size_t sa = (it->second * 16 / c) % T, sb = (i * 16 / c) % T;
              if (sa == sb) within = true;
              else if (iv[sa] == iv[sb]) across_shared = true;
              else across_distinct = true;
            }
            cx.rep.count("keystream_blocks_checked", (long long)nblocks);
            if (across_shared) cx.rep.count("keystream_reuse_explained_by_shared_iv");
            if (within) cx.rep.violation("C18|keystream-reuse|within-stream", "a keystream block was used twice inside one stream", desc);
            if (across_distinct) cx.rep.violation("C18|keystream-reuse|across-streams-distinct-ivs", "a keystream block was used by two streams with different IVs", desc);
          }
          // (5) equal plaintext chunks must not give equal ciphertext chunks
          if (pk == 1) {
            size_t full = nblocks * 16 / c;
            bool unexplained = false, explained = false;
            for (size_t a = 0; a < full; a++)
              for (size_t b = a + 1; b < full; b++)
                if (!memcmp(body + a * c, body + b * c, c)) {
                  size_t sa = a % T, sb = b % T;
                  if (sa != sb && a / T == b / T && iv[sa] == iv[sb]) explained = true; // same position in two streams sharing an IV
                  else unexplained = true;
                }
            cx.rep.count("equal_chunk_pairs_checked", (long long)(full * (full - 1) / 2));
            if (explained) cx.rep.count("equal_ciphertext_chunks_explained_by_shared_iv");
            if (unexplained) cx.rep.violation("C18|equal-chunks-equal-ciphertext|unexplained", "equal plaintext chunks produced equal ciphertext chunks (not explained by two streams sharing an IV)", desc);
          }
          cx.rep.dist("class", vh::tuple_hash({T, cmode, pk, si}));
          if (cx.idx % 211 == 0) cx.rep.sample(desc);
        }
}
