// C13: record the exact write sequence of an encryption below stdio, then enumerate EVERY byte-granular
// crash state (prefix of the issue-ordered write stream applied to an empty file) and present each to
// verify and decrypt.  accepted(S) => S == complete file.
#include "ctx.hpp"

void run_C13(Ctx &cx) {
  const size_t c = VH_CHUNK;
  size_t ns[] = {0, 1, 16, c, 2 * c + 3};
  int Ts[] = {1, 2, 4};
  int bufmodes[] = {0, 16, 4096}; // unbuffered (finest granularity), small and large stdio buffers
  int k = 0;
  for (int cm = 0; cm < 5; cm++)
    for (int hm = 0; hm < 3; hm++)
      for (int ti = 0; ti < 3; ti++)
        for (int ni = 0; ni < 5; ni++, k++) {
          bool chosen = cx.thorough || ((k + (int)cx.seed) % 3 == 0);
          if (!chosen) continue;
          for (int bi = 0; bi < 3; bi++) {
            if (!cx.thorough && bi != 0 && (k % 21)) continue;
            if (!cx.take()) continue;
            vh::Rng r = cx.case_rng();
            ops::EncParams ep;
            ep.cmode = cm; ep.hmode = hm; ep.T = Ts[ti];
            r.fill(ep.key, 16);
            ep.seed = ops::gen_seed(r);
            size_t n = ns[ni];
            uint64_t pseed = r.next();
            bytes P = ops::gen_plain(n, pseed);
            vh::J dj;
            dj.raw("file", ops::params_json(n, ep, pseed)).num("stdio_buffer", bufmodes[bi]);
            std::string desc = dj.done();
            cx.begin(desc);
            ops::Result e = ops::encrypt(P, ep, bufmodes[bi], true);
            if (!e.ret) { cx.rep.violation("C13|encrypt-failed", "could not encrypt", desc); continue; }
            const bytes &fin = e.out;
            cx.rep.count("enum_cases");
            cx.rep.count("writes_recorded", (long long)e.writes.size());
            // order monitor (evidence only): is the last write the tag patch at offset 10?
            if (!e.writes.empty() && e.writes.back().off == 10 && (int)e.writes.back().len == ref::hlen_of(hm)) cx.rep.count("cases_tag_written_last");
            else cx.rep.count("cases_tag_not_last_write");
            // sanity of the recording itself: replaying all writes must give the final content
            bytes S;
            size_t poff = 0;
            long long states = 0, accepted = 0, accepted_complete = 0;
            auto test_state = [&](size_t widx, size_t bidx) {
              states++;
              ops::Result v = ops::verify(S, ep.key, ep.T);
              bool acc = v.ret;
              ops::Result d;
              // decrypt only when verify accepts or on a sample (decrypt = verify + pipeline)
              {
                d = ops::decrypt(S, ep.key, ep.T);
                acc = acc || d.ret;
                if (d.ret != v.ret) {
                  vh::J j;
                  j.num("write", (long long)widx).num("byte", (long long)bidx).boolean("verify", v.ret).boolean("decrypt", d.ret);
                  cx.rep.violation("C13|verify-decrypt-disagree-on-crash-state", "verify and decrypt disagree on a crash state", j.done());
                }
              }
              if (!acc) return;
              accepted++;
              if (S == fin) { accepted_complete++; return; }
              vh::J j;
              j.num("write_index", (long long)widx).num("bytes_of_that_write", (long long)bidx).num("state_len", (long long)S.size()).num("final_len", (long long)fin.size());
              j.num("writes_total", (long long)e.writes.size());
              std::string where = widx + 1 == e.writes.size() ? "inside-last-write" : (S.size() < fin.size() ? "body-incomplete" : "before-last-write");
              cx.rep.violation("C13|partial-file-accepted|" + where, "a crash state that is not the complete file verifies/decrypts", j.done());
            };
            test_state(0, 0); // empty file
            for (size_t w = 0; w < e.writes.size(); w++) {
              const vh::WriteRec &wr = e.writes[w];
              for (size_t b = 0; b < wr.len; b++) {
                size_t o = wr.off + b;
                if (o >= S.size()) S.resize(o + 1, 0);
                S[o] = e.payload[poff + b];
                test_state(w, b + 1);
              }
              poff += wr.len;
            }
            if (S != fin) { fprintf(stderr, "harness: write log does not reproduce the file\n"); exit(2); }
            cx.rep.count("crash_states", states);
            cx.rep.count("accepted_states", accepted);
            cx.rep.count("accepted_complete_file", accepted_complete);
            if (accepted_complete < 1) cx.rep.violation("C13|complete-file-rejected", "the completely written file was not accepted", desc);
            cx.rep.dist("class", vh::tuple_hash({cm, hm, Ts[ti], (long long)n, bufmodes[bi]}));
            if (cx.rep.samples.size() < 4) {
              vh::J sj;
              sj.raw("case", desc).num("writes", (long long)e.writes.size()).num("crash_states_enumerated", states).num("accepted", accepted);
              std::string wl = "[";
              for (size_t w = 0; w < e.writes.size() && w < 14; w++) wl += (w ? "," : "") + std::string("[") + std::to_string(e.writes[w].off) + "," + std::to_string(e.writes[w].len) + "]";
              wl += "]";
              sj.raw("first_writes_off_len", wl);
              cx.rep.sample(sj.done());
            }
          }
        }
}
