// C01 round trip, C02 file format vs the independent reference.
#include "ctx.hpp"

static std::vector<int> tset(bool thorough) {
  if (thorough) { std::vector<int> v; for (int t = 1; t <= 16; t++) v.push_back(t); return v; }
  return {1, 2, 3, 4, 7, 16};
}

static uint64_t cls(size_t n, int cmode, int hmode, int T) {
  size_t c = VH_CHUNK;
  size_t padded = 16 * (n / 16 + 1);
  size_t chunks = (padded + c - 1) / c;
  int rel = chunks < (size_t)T ? 0 : chunks == (size_t)T ? 1 : 2;
  return vh::tuple_hash({(long long)(n % 16), (long long)(n % c), rel, cmode, hmode, T});
}


// production constants (no size override): lengths around the real 16 MiB chunk
static void prod_cases(Ctx &cx, bool roundtrip) {
  const size_t c = VH_CHUNK;
  std::vector<size_t> ns = {c - 17, c - 16, c - 1, c, c + 1, 2 * c - 16, 2 * c + 3};
  if (cx.thorough) { ns.push_back(3 * c - 1); ns.push_back(4 * c - 16); ns.push_back(5 * c + 7); }
  for (size_t n : ns)
    for (int cmode = 0; cmode < 5; cmode++) {
      if (!cx.thorough && (n + cmode + cx.seed) % 3) continue;
      if (!cx.take()) continue;
      vh::Rng r = cx.case_rng();
      ops::EncParams ep;
      ep.cmode = cmode; ep.hmode = (int)r.below(3); ep.T = r.chance(70) ? 4 : 1 + (int)r.below(6);
      r.fill(ep.key, 16);
      ep.seed = ops::gen_seed(r);
      uint64_t pseed = r.next();
      bytes P(n);
      { // cheap non-trivial content
        vh::Rng pr(pseed);
        for (size_t i = 0; i < n; i += 8) { uint64_t v = pr.next(); memcpy(&P[i], &v, std::min<size_t>(8, n - i)); }
      }
      std::string desc = ops::params_json(n, ep, pseed);
      cx.begin(desc);
      ops::Result e = ops::encrypt(P, ep);
      cx.rep.count("prod_constant_cases");
      if (!e.ret) { cx.rep.violation(std::string(roundtrip ? "C01" : "C02") + "|prod|encrypt-returned-false", "encrypt failed with production constants", desc); continue; }
      if (roundtrip) {
        ops::Result d = ops::decrypt(e.out, ep.key, ep.T);
        cx.rep.count("decrypts");
        if (!d.ret || d.out != P) cx.rep.violation(std::string("C01|prod|") + (!d.ret ? "decrypt-returned-false" : d.out.size() != P.size() ? "roundtrip-length-differs" : "roundtrip-bytes-differ"), "round trip failed with production constants (16 MiB chunks)", desc);
        else { cx.rep.count("roundtrips_ok"); cx.rep.dist("class", vh::tuple_hash({(long long)n, cmode, ep.T, 9999})); }
      } else {
        cx.rep.count("files");
        bytes want = ref::wenc_reference(P, ep.key, ep.cmode, ep.hmode, ep.seed.data(), ep.seed.size(), ep.T, c);
        cx.rep.count("bytes_compared", (long long)want.size());
        if (e.out != want) {
          size_t k = 0;
          while (k < e.out.size() && k < want.size() && e.out[k] == want[k]) k++;
          vh::J j;
          j.num("first_diff", (long long)k).num("got_len", (long long)e.out.size()).num("want_len", (long long)want.size());
          cx.rep.violation("C02|prod|mismatch", "output differs from the reference with production constants", j.done());
        } else { cx.rep.count("files_equal_to_reference"); cx.rep.dist("class", vh::tuple_hash({(long long)n, cmode, ep.T, 9999})); }
      }
      cx.rep.sample(desc);
    }
}

void run_C01(Ctx &cx) {
  cx.ambient = true;
  if (cx.args.s("sub") == "prod") { prod_cases(cx, true); return; }
  const size_t c = VH_CHUNK;
  const size_t nmax = 5 * c + 17;
  std::vector<int> Ts = tset(cx.thorough);
  // more chunks than workers also for the LARGEST thread counts (every worker gets at least one chunk, some two)
  for (int T : {13, 15, 16})
    for (size_t k : {(size_t)T - 1, (size_t)T, (size_t)T + 1, (size_t)T + 2})
      for (int d = -17; d <= 1; d += 6)
        for (int cmode = 0; cmode < 5; cmode++) {
          if (!cx.take()) continue;
          vh::Rng r = cx.case_rng();
          ops::EncParams ep;
          ep.cmode = cmode; ep.hmode = (int)r.below(3); ep.T = T;
          r.fill(ep.key, 16);
          ep.seed = ops::gen_seed(r);
          size_t n = (size_t)((long)(k * c) + d);
          uint64_t pseed = r.next();
          bytes P = ops::gen_plain(n, pseed);
          std::string desc = ops::params_json(n, ep, pseed);
          cx.begin(desc);
          ops::Result e = ops::encrypt(P, ep);
          cx.rep.count("encrypts");
          if (!e.ret) { cx.rep.violation("C01|encrypt-returned-false", "execute_encrypt returned false", desc); continue; }
          ops::Result dd = ops::decrypt(e.out, ep.key, ep.T);
          cx.rep.count("decrypts");
          cx.rep.count("many_chunks_large_T");
          if (!dd.ret) cx.rep.violation("C01|decrypt-returned-false", "decrypt of a genuine file returned false", desc);
          else if (dd.out != P) cx.rep.violation(dd.out.size() != P.size() ? "C01|roundtrip-length-differs" : "C01|roundtrip-bytes-differ", "decrypt(encrypt(P)) != P", desc);
          else { cx.rep.count("roundtrips_ok"); cx.rep.dist("class", vh::tuple_hash({(long long)(n % 16), (long long)k, 3, cmode, ep.hmode, T})); }
        }
  for (size_t n = 0; n <= nmax; n++)
    for (int cmode = 0; cmode < 5; cmode++)
      for (size_t ti = 0; ti < Ts.size(); ti++) {
        int nh = cx.thorough ? 3 : 1;
        for (int hi = 0; hi < nh; hi++) {
          if (!cx.take()) continue;
          vh::Rng r = cx.case_rng();
          ops::EncParams ep;
          ep.cmode = cmode;
          ep.hmode = cx.thorough ? hi : (int)((n + cmode + ti + cx.seed) % 3);
          ep.T = Ts[ti];
          r.fill(ep.key, 16);
          ep.seed = ops::gen_seed(r);
          uint64_t pseed = r.next();
          int kind = (int)r.below(8) == 0 ? (int)r.below(4) : 0;
          bytes P = ops::gen_plain(n, pseed, kind);
          std::string desc = ops::params_json(n, ep, pseed);
          cx.begin(desc);
          ops::Result e = ops::encrypt(P, ep);
          cx.rep.count("encrypts");
          if (!e.ret) { cx.rep.violation("C01|encrypt-returned-false", "execute_encrypt returned false", desc); continue; }
          ops::Result d = ops::decrypt(e.out, ep.key, ep.T);
          cx.rep.count("decrypts");
          size_t padded = 16 * (n / 16 + 1);
          if (padded % c == 0) cx.rep.count("padded_len_multiple_of_chunk");
          if (n == 0) cx.rep.count("empty_plaintext");
          if ((padded + c - 1) / c < (size_t)ep.T) cx.rep.count("more_workers_than_chunks");
          if (!d.ret) {
            cx.rep.violation("C01|decrypt-returned-false", "decrypt of a genuine file returned false", desc);
            continue;
          }
          if (d.out != P) {
            vh::J j;
            j.num("got_len", (long long)d.out.size()).num("want_len", (long long)P.size());
            size_t k = 0;
            while (k < d.out.size() && k < P.size() && d.out[k] == P[k]) k++;
            j.num("first_diff", (long long)k);
            cx.rep.violation(d.out.size() != P.size() ? "C01|roundtrip-length-differs" : "C01|roundtrip-bytes-differ",
                             "decrypt(encrypt(P)) != P", j.done());
            continue;
          }
          cx.rep.count("roundtrips_ok");
          if (n > 0) cx.rep.dist("class", cls(n, ep.cmode, ep.hmode, ep.T));
          if (cx.idx % 997 == 0) cx.rep.sample(desc);
        }
      }
}

static const char *field_of(size_t off, int hmode, int T, size_t chunk, std::string &name) {
  int hl = ref::hlen_of(hmode);
  if (off < 8) name = "magic";
  else if (off == 8) name = "cmode";
  else if (off == 9) name = "hmode";
  else if (off < 10 + (size_t)hl) name = "tag";
  else if (off < 48) name = "zero-fill";
  else if (off < 48 + 20 * (size_t)T) name = "iv" + std::string((off - 48) / 20 == 0 ? "0" : "N");
  else name = "body";
  return name.c_str();
}

void run_C02(Ctx &cx) {
  cx.ambient = true;
  if (cx.args.s("sub") == "prod") { prod_cases(cx, false); return; }
  const size_t c = VH_CHUNK;
  const size_t nmax = cx.thorough ? 5 * c + 17 : 4 * c + 17;
  std::vector<int> Ts = tset(cx.thorough);
  for (size_t n = 0; n <= nmax; n++)
    for (int cmode = 0; cmode < 5; cmode++)
      for (size_t ti = 0; ti < Ts.size(); ti++) {
        int nh = cx.thorough ? 3 : 1;
        for (int hi = 0; hi < nh; hi++) {
          if (!cx.take()) continue;
          vh::Rng r = cx.case_rng();
          ops::EncParams ep;
          ep.cmode = cmode;
          ep.hmode = cx.thorough ? hi : (int)((n + cmode + ti + cx.seed) % 3);
          ep.T = Ts[ti];
          r.fill(ep.key, 16);
          ep.seed = ops::gen_seed(r);
          uint64_t pseed = r.next();
          int kind = (int)r.below(8) == 0 ? (int)r.below(4) : 0;
          bytes P = ops::gen_plain(n, pseed, kind);
          std::string desc = ops::params_json(n, ep, pseed);
          cx.begin(desc);
          ops::Result e = ops::encrypt(P, ep);
          cx.rep.count("files");
          if (!e.ret) { cx.rep.violation("C02|encrypt-returned-false", "execute_encrypt returned false", desc); continue; }
          bytes want = ref::wenc_reference(P, ep.key, ep.cmode, ep.hmode, ep.seed.data(), ep.seed.size(), ep.T, c);
          size_t wantlen = 48 + 20 * (size_t)ep.T + 16 * (n / 16 + 1);
          if (want.size() != wantlen) { fprintf(stderr, "harness: reference length disagrees with formula\n"); exit(2); }
          bool bad = false;
          if (e.out.size() != wantlen) {
            vh::J j;
            j.num("got", (long long)e.out.size()).num("want", (long long)wantlen);
            cx.rep.violation("C02|length", "file length != 48+20T+16(floor(n/16)+1)", j.done());
            bad = true;
          }
          size_t lim = std::min(e.out.size(), want.size());
          cx.rep.count("bytes_compared", (long long)lim);
          for (size_t k = 0; k < lim; k++)
            if (e.out[k] != want[k]) {
              std::string f;
              field_of(k, ep.hmode, ep.T, c, f);
              vh::J j;
              j.num("offset", (long long)k).str("field", f).num("got", e.out[k]).num("want", want[k]);
              if (f == "body") j.num("chunk", (long long)((k - 48 - 20 * ep.T) / c));
              cx.rep.violation("C02|mismatch|" + f, "output byte differs from the reference at field " + f, j.done());
              cx.rep.count("mismatch_" + f);
              bad = true;
              break;
            }
          if (e.in_writes || e.in_changed) {
            cx.rep.violation("C02|input-modified", "encryption wrote to its input stream", "{}");
            bad = true;
          }
          // determinism: same case again (different real-thread timing)
          if (cx.idx % 4 == 0) {
            ops::Result e2 = ops::encrypt(P, ep);
            cx.rep.count("determinism_reruns");
            if (e2.out != e.out) { cx.rep.violation("C02|nondeterministic", "two encryptions of the same case differ", "{}"); bad = true; }
          }
          // no untransformed plaintext: no aligned 16-byte block of random P anywhere in the output
          if (kind == 0 && n >= 16) {
            bool leak = false;
            for (size_t b = 0; b + 16 <= n && !leak; b += 16)
              if (memmem(e.out.data(), e.out.size(), P.data() + b, 16)) leak = true;
            cx.rep.count("leak_scans");
            if (leak) { cx.rep.violation("C02|plaintext-in-output", "a plaintext block appears verbatim in the output", "{}"); bad = true; }
          }
          if (!bad) {
            cx.rep.count("files_equal_to_reference");
            size_t chunks = (16 * (n / 16 + 1) + c - 1) / c;
            cx.rep.dist("class", vh::tuple_hash({ep.cmode, ep.hmode, ep.T, (long long)chunks, (long long)(n % 16)}));
          }
          if (cx.idx % 997 == 0) cx.rep.sample(desc);
        }
      }
}
