// E-API: in-process harness (links the real kernel/valget objects).  One invocation = one shard.
#include "ctx.hpp"
#include <signal.h>

#define WEAK(fn) __attribute__((weak)) void fn(Ctx &) { fprintf(stderr, "harness: " #fn " not linked\n"); exit(2); }
WEAK(run_C01) WEAK(run_C02) WEAK(run_C05) WEAK(run_C06) WEAK(run_C07) WEAK(run_C08) WEAK(run_C09)
WEAK(run_C10) WEAK(run_C11) WEAK(run_C12) WEAK(run_C13) WEAK(run_C15) WEAK(run_C16) WEAK(run_C18)

void (*g_event_cb)(int, int, long, long) = nullptr;
extern "C" void wencry_verif_event(int kind, int id, long a, long b) {
  if (g_event_cb) g_event_cb(kind, id, a, b);
}

int main(int argc, char **argv) {
  Ctx cx(argc, argv);
  if (ref::selftest() != 0) {
    fprintf(stderr, "harness: reference self-test failed\n");
    return 2;
  }
  // the product prints progress to stdout; keep it away from the driver unless asked
  if (cx.args.s("stdout", "null") == "null") {
    if (!freopen("/dev/null", "w", stdout)) return 2;
  }
  std::string p = cx.args.s("prop");
  struct { const char *n; prop_fn f; } tab[] = {
      {"C01", run_C01}, {"C02", run_C02}, {"C05", run_C05}, {"C06", run_C06}, {"C07", run_C07},
      {"C08", run_C08}, {"C09", run_C09}, {"C10", run_C10}, {"C11", run_C11}, {"C12", run_C12},
      {"C13", run_C13}, {"C15", run_C15}, {"C16", run_C16}, {"C18", run_C18}};
  for (auto &t : tab)
    if (p == t.n) {
      t.f(cx);
      cx.rep.finish();
      return 0;
    }
  fprintf(stderr, "harness: unknown --prop %s\n", p.c_str());
  return 2;
}
