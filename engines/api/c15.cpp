// C15: sequences of operations in ONE process vs each operation alone in a fresh process image.
// The driver process itself never runs an operation: it forks one child per single operation (fresh image:
// no product code has run in it) and one child for the whole sequence, and compares what they report.
#include "ctx.hpp"
#include "getval.h"
#include "wencry_verif_hooks.h"
#include <sys/stat.h>
#include <sys/wait.h>
#include <poll.h>

extern void (*g_event_cb)(int, int, long, long);

// ---- failpoint: one array allocation of exactly g_fail_new_min bytes fails with std::bad_alloc (armed per operation) --
#include <new>
static size_t g_fail_new_min = 0;
static int g_fail_new_fired = 0;
void *operator new[](size_t n) {
  if (g_fail_new_min && n == g_fail_new_min) {
    g_fail_new_min = 0;
    g_fail_new_fired++;
    throw std::bad_alloc();
  }
  void *p = malloc(n ? n : 1);
  if (!p) throw std::bad_alloc();
  return p;
}
void operator delete[](void *p) noexcept { free(p); }
void operator delete[](void *p, size_t) noexcept { free(p); }

namespace {
struct Op {
  int kind;
  ops::EncParams ep;
  bytes P, F; // plaintext (encrypt) or input file (decrypt / verify)
  uint8_t key[16];
  int T;
  bool echo;
  std::vector<std::string> argv; // CLI-path operations
  std::string infile, outfile;   // real files for CLI-path operations
};
struct Res {
  int32_t ret;      // 1 true, 0 false, -1 parse failure (CLI path)
  uint32_t outlen;
  uint64_t outhash;
  int32_t haslive;  // bufferctrl::haslive() after the operation (must be 0)
  int32_t stale;    // a buffer group was set up with turn != 0 or over != false
  int32_t left_open; // the operation returned without closing a stream it was given (API operations close both)
};
const char *KN[] = {"enc", "dec-genuine", "ver-genuine", "dec-wrongkey", "ver-wrongkey", "dec-tampered", "dec-truncated",
                    "dec-garbage", "dec-empty", "cli-enc", "cli-dec", "cli-ver", "cli-parse-fail", "enc-echo", "dec-boundary", "dec-badmode", "enc-allocfail", "ver-pipe-input"};
const int NK = 18;

int g_stale = 0;
void ev(int kind, int id, long a, long b) {
  if (kind == WV_SETUP_STATE && (a != 0 || b != 0)) g_stale = 1;
}

bytes genuine(vh::Rng &r, ops::EncParams &ep, bytes &P, size_t n) {
  ep.cmode = (int)r.below(5); ep.hmode = (int)r.below(3);
  r.fill(ep.key, 16);
  ep.seed = ops::gen_seed(r);
  P = r.bytes_(n);
  return ref::wenc_reference(P, ep.key, ep.cmode, ep.hmode, ep.seed.data(), ep.seed.size(), ep.T, VH_CHUNK);
}

// the most recent genuine file of the sequence: some later wrong-key / tampered operations work on THIS file, so that
// anything an accepted operation leaves behind about (file, key) meets a related request
struct LastGenuine { bool have = false; bytes F, P; uint8_t key[16]; int T; ops::EncParams ep; };
static LastGenuine g_last;

Op make_op(vh::Rng &r, int kind, const std::string &dir, int serial) {
  const size_t c = VH_CHUNK;
  Op o;
  o.kind = kind;
  o.echo = false;
  o.T = 1 + (int)r.below(8);
  o.ep.T = o.T;
  size_t n = r.chance(30) ? (size_t)r.below(40) : (size_t)r.below(5 * c);
  if (kind == 14) n = c * (1 + r.below(3)) - 1 - (size_t)r.below(16); // padded length == multiple of the chunk
  o.infile = dir + "/in" + std::to_string(serial);
  o.outfile = dir + "/out" + std::to_string(serial);
  switch (kind) {
  case 16: // encryption whose chunk-buffer allocation fails (out of memory); the caller catches and carries on
    o.T = o.ep.T = 2 + (int)r.below(15);
    // fallthrough
  case 0: case 13:
    o.ep.cmode = (int)r.below(5); o.ep.hmode = (int)r.below(3);
    r.fill(o.ep.key, 16);
    o.ep.seed = ops::gen_seed(r);
    o.P = r.bytes_(n);
    o.echo = kind == 13;
    break;
  case 1: case 2: case 14:
    o.F = genuine(r, o.ep, o.P, n);
    memcpy(o.key, o.ep.key, 16);
    g_last.have = true; g_last.F = o.F; g_last.P = o.P; g_last.T = o.T; g_last.ep = o.ep; memcpy(g_last.key, o.key, 16);
    break;
  case 3: case 4:
    if (g_last.have && r.chance(60)) { // a wrong key for the file that was just accepted with the right one
      o.F = g_last.F; o.P = g_last.P; o.T = o.ep.T = g_last.T; o.ep = g_last.ep; memcpy(o.key, g_last.key, 16);
    } else {
      o.F = genuine(r, o.ep, o.P, n);
      memcpy(o.key, o.ep.key, 16);
    }
    o.key[r.below(16)] ^= (uint8_t)(1 << r.below(8));
    break;
  case 5:
    if (g_last.have && r.chance(60)) { // a tampered copy of the file that was just accepted
      o.F = g_last.F; o.P = g_last.P; o.T = o.ep.T = g_last.T; o.ep = g_last.ep; memcpy(o.key, g_last.key, 16);
    } else {
      o.F = genuine(r, o.ep, o.P, n);
      memcpy(o.key, o.ep.key, 16);
    }
    o.F[(r.chance(50) ? 48 : 10) + r.below(o.F.size() - 48)] ^= (uint8_t)(1 + r.below(255));
    break;
  case 6:
    o.F = genuine(r, o.ep, o.P, n);
    memcpy(o.key, o.ep.key, 16);
    o.F.resize((size_t)r.below(o.F.size()));
    break;
  case 7:
    o.F = r.bytes_((size_t)r.below(300));
    if (r.chance(50) && o.F.size() >= 8) memcpy(o.F.data(), ref::MAGIC, 8);
    r.fill(o.key, 16);
    break;
  case 8:
    r.fill(o.key, 16);
    break;
  case 17: // a genuine file presented through a PIPE (not seekable: every fseek fails with ESPIPE)
    o.F = genuine(r, o.ep, o.P, n % 2000);
    memcpy(o.key, o.ep.key, 16);
    break;
  case 15: // genuine file whose cipher-mode byte was changed to another valid / invalid value
    o.F = genuine(r, o.ep, o.P, n);
    memcpy(o.key, o.ep.key, 16);
    o.F[8] = (uint8_t)(r.chance(50) ? r.below(5) : 5 + r.below(251));
    break;
  case 9: { // CLI-path encrypt (always T = 4, as main() does)
    o.T = o.ep.T = 4;
    o.P = r.bytes_(n);
    r.fill(o.key, 16);
    int cm = (int)r.below(5), hm = (int)r.below(3);
    o.argv = {"wencry", "-e", "-i", o.infile, "-o", o.outfile, "-k", ref::b64enc(o.key, 16), "--cmode", std::to_string(cm), "--hmode", std::to_string(hm)};
    if (r.chance(50)) o.argv.push_back("-n");
    break;
  }
  case 10: case 11: {
    o.T = o.ep.T = 4;
    o.F = genuine(r, o.ep, o.P, n);
    memcpy(o.key, o.ep.key, 16);
    if (r.chance(30)) o.key[3] ^= 1;
    if (kind == 10) o.argv = {"wencry", "-d", "-i", o.infile, "-o", o.outfile, "-k", ref::b64enc(o.key, 16)};
    else o.argv = {"wencry", "-v", "-i", o.infile, "-k", ref::b64enc(o.key, 16)};
    if (r.chance(50)) o.argv.push_back("-n");
    break;
  }
  case 12: {
    o.T = o.ep.T = 4;
    o.P = r.bytes_(n);
    r.fill(o.key, 16);
    std::string k64 = ref::b64enc(o.key, 16);
    switch ((int)r.below(7)) {
    case 0: o.argv = {"wencry", "-e", "-d", "-i", o.infile}; break;
    case 1: o.argv = {"wencry", "-i", o.infile, "-o", o.outfile}; break;
    case 2: o.argv = {"wencry", "-e", "-i", o.infile + ".missing", "-o", o.outfile}; break;
    case 3: o.argv = {"wencry", "-e", "-i", o.infile, "-o", o.outfile, "-k", k64.substr(0, 23)}; break;
    case 4: o.argv = {"wencry", "-e", "-i", o.infile, "-o", o.outfile, "--cmode", "7"}; break;
    case 5: o.argv = {"wencry", "-d", "-i", o.infile, "-k", k64}; break;
    default: o.argv = {"wencry", "-e", "-i", o.infile, "--bogus"}; break;
    }
    break;
  }
  }
  return o;
}

void write_file(const std::string &p, const bytes &b) {
  FILE *f = fopen(p.c_str(), "wb");
  if (!f) { perror("harness: fopen"); exit(2); }
  if (!b.empty()) fwrite(b.data(), 1, b.size(), f);
  fclose(f);
}
bool read_file(const std::string &p, bytes &b) {
  FILE *f = fopen(p.c_str(), "rb");
  if (!f) return false;
  b.clear();
  uint8_t buf[4096];
  size_t k;
  while ((k = fread(buf, 1, sizeof buf, f)) > 0) b.insert(b.end(), buf, buf + k);
  fclose(f);
  return true;
}

Res exec_op(const Op &o) {
  Res r;
  memset(&r, 0, sizeof r);
  g_stale = 0;
  bytes out;
  if (o.argv.empty()) {
    ops::Result x;
    if (o.kind == 17) {
      int pf[2];
      if (pipe(pf)) { perror("pipe"); exit(2); }
      (void)!write(pf[1], o.F.data(), o.F.size()); // < 64 KiB: fits the pipe buffer
      close(pf[1]);
      FILE *fi = fdopen(pf[0], "rb");
      vh::MemFile out;
      FILE *fo = out.open("w+");
      uint8_t key[16];
      memcpy(key, o.key, 16);
      {
        Settings st((char)-1, (char)-1, true);
        runcrypt runner(fi, fo, key, st, (u8_t)o.T);
        x.ret = runner.execute_verify(o.F.size());
      }
      x.out = out.data;
      x.in_closed = true; // (a real FILE*: closing is checked through the memory streams of the other kinds)
      x.out_closed = out.closed;
      if (!out.closed) fclose(fo);
    } else if (o.kind == 16) {
      vh::MemFile in, out;
      in.data = o.P;
      FILE *fi = in.open("r+"), *fo = out.open("w+");
      uint8_t key[16];
      memcpy(key, o.ep.key, 16);
      bytes seed = o.ep.seed;
      seed.push_back(0);
      g_fail_new_min = (size_t)o.T * sizeof(iobuffer); // exactly the chunk-buffer array (by far the largest allocation in production)
      try {
        Settings st((char)o.ep.cmode, (char)o.ep.hmode, true);
        runcrypt runner(fi, fo, key, st, (u8_t)o.T);
        x.ret = runner.execute_encrypt(o.P.size(), seed.data());
      } catch (const std::bad_alloc &) {
        x.ret = false;
        r.ret = -3;
      }
      g_fail_new_min = 0;
      if (!in.closed) fclose(fi);
      if (!out.closed) fclose(fo);
      x.out = out.data;
      if (r.ret == -3) { x.out.clear(); }
    } else if (o.kind == 0 || o.kind == 13) {
      ops::EncParams ep = o.ep;
      ep.echo = o.echo;
      x = ops::encrypt(o.P, ep);
    } else if (o.kind == 2 || o.kind == 4) x = ops::verify(o.F, o.key, o.T);
    else x = ops::decrypt(o.F, o.key, o.T);
    if (r.ret != -3) r.ret = x.ret;
    out = x.out;
    if (o.kind != 16 && (!x.in_closed || !x.out_closed)) r.left_open = 1;
  } else {
    // what main() does, minus exit codes
    write_file(o.infile, o.kind == 9 || o.kind == 12 ? o.P : o.F);
    unlink(o.outfile.c_str());
    std::vector<std::string> av = o.argv;
    std::vector<char *> argv;
    for (auto &s : av) argv.push_back(&s[0]);
    argv.push_back(nullptr);
    u8_t *vals = get_v_opt((int)av.size(), argv.data());
    if (getenv("C15_DEBUG")) {
      std::string a;
      for (auto &x : av) a += x.substr(0, 40) + " ";
      fprintf(stderr, "C15_DEBUG pid=%d argv: %s -> %s\n", (int)getpid(), a.c_str(), vals ? "parsed" : "NULL");
    }
    if (!vals) r.ret = -1;
    else {
      vpak_t *p = (vpak_t *)vals;
      Settings st(p->ctype, p->htype, p->no_echo);
      runcrypt runner(p->fp, p->out, p->key, st);
      if (p->mode == 'e') r.ret = runner.execute_encrypt(p->size, p->r_buf);
      else if (p->mode == 'd') r.ret = runner.execute_decrypt(p->size);
      else if (p->mode == 'v') r.ret = runner.execute_verify(p->size);
      else r.ret = -2;
    }
    read_file(o.outfile, out);
    if (o.kind == 9 && r.ret == 1 && out.size() >= 48 + 80) {
      // the CLI seeds the IVs from rand(): blank the seed-dependent parts (IV slots, tag, body) and keep
      // what must be history-independent: length, magic, mode bytes, zero fill
      bytes keep(out.begin(), out.begin() + 10);
      keep.push_back((uint8_t)(out.size() & 255));
      keep.push_back((uint8_t)(out.size() >> 8));
      out = keep;
    }
    unlink(o.infile.c_str());
    unlink(o.outfile.c_str());
  }
  r.outlen = (uint32_t)out.size();
  r.outhash = vh::fnv(out.data(), out.size());
  r.haslive = bufferctrl::haslive() ? 1 : 0;
  r.stale = g_stale;
  return r;
}

// run ops[from..to) in a forked child, results through a pipe; returns false if the child did not exit normally
bool run_in_child(const std::vector<Op> &opsv, size_t from, size_t to, std::vector<Res> &out, int timeout_ms, std::string &how) {
  int fd[2];
  if (pipe(fd)) { perror("pipe"); exit(2); }
  fflush(nullptr);
  pid_t pid = fork();
  if (pid < 0) { perror("fork"); exit(2); }
  if (pid == 0) {
    close(fd[0]);
    for (size_t i = from; i < to; i++) {
      Res r = exec_op(opsv[i]);
      if (write(fd[1], &r, sizeof r) != (ssize_t)sizeof r) _exit(3);
    }
    _exit(0);
  }
  close(fd[1]);
  out.clear();
  bool timed_out = false;
  while (true) {
    struct pollfd pf = {fd[0], POLLIN, 0};
    int pr = poll(&pf, 1, timeout_ms);
    if (pr == 0) { timed_out = true; kill(pid, SIGKILL); break; }
    Res r;
    ssize_t k = read(fd[0], &r, sizeof r);
    if (k != (ssize_t)sizeof r) break;
    out.push_back(r);
  }
  close(fd[0]);
  int st = 0;
  waitpid(pid, &st, 0);
  if (timed_out) { how = "timeout"; return false; }
  if (!WIFEXITED(st) || WEXITSTATUS(st) != 0) { how = WIFSIGNALED(st) ? "signal " + std::to_string(WTERMSIG(st)) : "exit " + std::to_string(WEXITSTATUS(st)); return false; }
  return out.size() == to - from;
}
} // namespace

void run_C15(Ctx &cx) {
  g_event_cb = ev;
  long long nseq = cx.thorough ? 40000 : 1600;
  std::string dir = cx.args.s("out") + ".files";
  mkdir(dir.c_str(), 0755);
  int abnormal_seqs = 0;
  for (long long s = 0; s < nseq; s++) {
    if (abnormal_seqs >= 3) { cx.rep.count("stopped_early_after_3_abnormal_sequences"); break; } // each hang witness costs its wall-clock budget twice
    if (!cx.take()) continue;
    vh::Rng r = cx.case_rng();
    int len = 2 + (int)r.below(r.chance(80) ? 12 : 39);
    std::vector<Op> seq;
    std::string kinds;
    g_last.have = false;
    for (int i = 0; i < len; i++) {
      int kind = (int)r.below(NK);
      seq.push_back(make_op(r, kind, dir, i));
      kinds += (i ? "," : "") + std::string(KN[kind]);
    }
    vh::J dj;
    dj.str("rng", std::to_string(vh::mix(cx.seed, (uint64_t)cx.idx))).num("length", len).str("ops", kinds);
    std::string desc = dj.done();
    cx.begin(desc);
    cx.rep.count("sequences");
    // fresh-image result of every operation
    std::vector<Op> kept;
    std::vector<Res> fresh;
    for (int i = 0; i < len; i++) {
      std::vector<Res> one;
      std::string how;
      std::vector<Op> single{seq[i]};
      if (run_in_child(single, 0, 1, one, 8000, how)) {
        kept.push_back(seq[i]);
        fresh.push_back(one[0]);
        if (one[0].ret == -3) cx.rep.count("alloc_failures_injected_and_caught");
      } else {
        cx.rep.count("ops_excluded_abnormal_alone"); // belongs to C11/C04, not to history dependence
        cx.rep.count(std::string("excluded_") + KN[seq[i].kind]);
      }
    }
    if (kept.size() < 2) continue;
    std::vector<Res> got;
    std::string how;
    bool ok = run_in_child(kept, 0, kept.size(), got, 8000 + 2000 * (int)kept.size(), how);
    if (!ok && how == "timeout") { // wall-clock is never a verdict by itself: once more with a much larger budget
      cx.rep.count("sequence_timeouts_retried");
      ok = run_in_child(kept, 0, kept.size(), got, 60000 + 8000 * (int)kept.size(), how);
    }
    cx.rep.count("operations", (long long)kept.size());
    for (size_t i = 0; i < kept.size(); i++) {
      if (i >= got.size()) {
        vh::J j;
        j.num("op_index", (long long)i).str("op", KN[kept[i].kind]).str("prev", i ? KN[kept[i - 1].kind] : "none").str("how", how);
        cx.rep.violation(std::string("C15|abnormal-in-sequence|") + (how == "timeout" ? "hang" : "crash"), "an operation that terminates normally alone did not when run after others in one process", j.done());
        abnormal_seqs++;
        break;
      }
      const Res &a = got[i], &b = fresh[i];
      if (i) cx.rep.dist("bigram", vh::tuple_hash({kept[i - 1].kind, kept[i].kind}));
      cx.rep.dist("class", vh::tuple_hash({kept[i].kind, i ? kept[i - 1].kind : -1, (long long)std::min<size_t>(i, 3)}));
      vh::J j;
      j.num("op_index", (long long)i).str("op", KN[kept[i].kind]).str("prev", i ? KN[kept[i - 1].kind] : "none");
      j.num("ret_in_sequence", a.ret).num("ret_alone", b.ret).num("outlen_in_sequence", a.outlen).num("outlen_alone", b.outlen);
      if (a.ret != b.ret) cx.rep.violation(std::string("C15|result-differs|") + KN[kept[i].kind], "operation result differs from the same operation in a fresh process", j.done());
      else if (a.outlen != b.outlen || a.outhash != b.outhash) cx.rep.violation(std::string("C15|output-differs|") + KN[kept[i].kind], "output bytes differ from the same operation in a fresh process", j.done());
      if (a.haslive) cx.rep.violation("C15|live-buffers-left-behind", "live-buffer counter not back to zero after an operation", j.done());
      if (a.left_open) cx.rep.violation(std::string("C15|stream-left-open|") + KN[kept[i].kind], "an operation returned without closing the streams it was given: every such operation leaks two descriptors, later operations in the process will fail", j.done());
      if (a.stale) cx.rep.violation("C15|stale-buffer-group", "a buffer group was set up with state left over from an earlier operation", j.done());
    }
    (void)ok;
    if (cx.idx % 331 == 0) cx.rep.sample(desc);
  }
  rmdir(dir.c_str());
}
