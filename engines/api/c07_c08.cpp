// C07 digests vs libcrypto, C08 HMAC / tag layout / tag comparison.
#include "ctx.hpp"
#include <algorithm>
#include <array>
#include <atomic>
#include <thread>
#include "hashmaster.h"

#ifdef WENCRY_VERIF_HBUF_UNITS
#define VH_REFILL ((size_t)(WENCRY_VERIF_HBUF_UNITS) * 64)
#else
#define VH_REFILL ((size_t)0x80000 * 64)
#endif

namespace {
bytes content(size_t n, int kind, vh::Rng &r) {
  bytes m = r.bytes_(n);
  if (kind == 1) std::fill(m.begin(), m.end(), 0);
  if (kind == 2) std::fill(m.begin(), m.end(), 0xff);
  if (kind == 3 && n) { std::fill(m.begin(), m.end(), 0); m[n - 1] = 0x80; }
  return m;
}
bytes real_string_hash(int alg, const bytes &m, const bytes *prime = nullptr) {
  HashFactory hf;
  Hashmaster *h = hf.getHasher(hf.getType((u8_t)alg));
  bytes out(h->gethlen());
  static const uint8_t dummy = 0;
  if (prime) { // the same hasher object digests another message first (objects are reused by HMAC and by callers)
    bytes tmp(h->gethlen());
    h->getStringHash(prime->empty() ? &dummy : prime->data(), (u32_t)prime->size(), tmp.data());
  }
  h->getStringHash(m.empty() ? &dummy : m.data(), (u32_t)m.size(), out.data());
  delete h;
  return out;
}
// entry: 1 = file buffer from offset 0, 2 = with 64-byte prefix block, 3 = stream positioned at pos
bytes real_file_hash(int alg, const bytes &m, int entry, size_t pos, const uint8_t *prefix, const bytes *prime = nullptr) {
  HashFactory hf;
  Hashmaster *h = hf.getHasher(hf.getType((u8_t)alg));
  bytes out(h->gethlen());
  if (prime) {
    static const uint8_t dummy = 0;
    bytes tmp(h->gethlen());
    h->getStringHash(prime->empty() ? &dummy : prime->data(), (u32_t)prime->size(), tmp.data());
  }
  vh::MemFile mf;
  mf.data = m;
  FILE *f = mf.open("r+");
  if (entry == 3) fseek(f, (long)pos, SEEK_SET);
  auto nop = [](std::string, size_t) {};
  uint8_t pf[64];
  if (prefix) memcpy(pf, prefix, 64);
  filebuffer64 *fb = new filebuffer64(f, nop, entry == 2 ? pf : NULL);
  h->getFileHash(fb, out.data(), nop);
  delete fb;
  delete h;
  fclose(f);
  return out;
}
// synthetic stream of `total` bytes: byte i = pattern(i); no file, no big allocation
struct Synth : public buffer64 {
  uint64_t total, pos = 0, salt;
  Synth(uint64_t t, uint64_t s) : total(t), salt(s) {}
  static inline uint8_t pat(uint64_t i, uint64_t salt) { return (uint8_t)((i * 0x9E37u + (i >> 13) + salt) ^ (i >> 7)); }
  u32_t read_buffer64(u8_t *block, const std::function<void(std::string, size_t)> &) override {
    uint64_t left = total - pos;
    u32_t k = left >= 64 ? 64 : (u32_t)left;
    for (u32_t i = 0; i < k; i++) block[i] = pat(pos + i, salt);
    pos += k;
    return k;
  }
};
} // namespace

void run_C07(Ctx &cx) {
  const size_t R = VH_REFILL;
  std::string sub = cx.args.s("sub", "sweep");
  if (sub == "sweep") {
    const size_t nmax = 4 * R + 130;
    for (size_t n = 0; n <= nmax; n++)
      for (int alg = 0; alg < 3; alg++)
        for (int entry = 0; entry < 4; entry++) {
          int kinds = cx.thorough ? 4 : 1;
          for (int kk = 0; kk < kinds; kk++) {
            if (!cx.take()) continue;
            vh::Rng r = cx.case_rng();
            int kind = cx.thorough ? kk : ((n + alg + entry) % 5 == 0 ? (int)(1 + (n / 5) % 3) : 0);
            bytes m = content(n, kind, r);
            uint8_t prefix[64];
            r.fill(prefix, 64);
            size_t pos = entry == 3 ? (size_t)r.below(n + 1) : 0;
            vh::J j;
            j.num("len", (long long)n).num("alg", alg).num("entry", entry).num("kind", kind).num("pos", (long long)pos).num("refill", (long long)R);
            j.str("rng", std::to_string(vh::mix(cx.seed, (uint64_t)cx.idx)));
            std::string desc = j.done();
            cx.begin(desc);
            bytes got, want;
            if (entry == 0) { got = real_string_hash(alg, m); want = ref::hash(alg, m.data(), m.size()); }
            else if (entry == 1) { got = real_file_hash(alg, m, 1, 0, nullptr); want = ref::hash(alg, m.data(), m.size()); }
            else if (entry == 2) {
              got = real_file_hash(alg, m, 2, 0, prefix);
              bytes pm(prefix, prefix + 64);
              pm.insert(pm.end(), m.begin(), m.end());
              want = ref::hash(alg, pm.data(), pm.size());
            } else { got = real_file_hash(alg, m, 3, pos, nullptr); want = ref::hash(alg, m.data() + pos, m.size() - pos); }
            cx.rep.count("digests_compared");
            size_t eff = entry == 2 ? n + 64 : entry == 3 ? n - pos : n;
            { // the same digest again from a hasher object that has already digested another message
              bytes prime = r.bytes_((size_t)r.below(200));
              bytes again = entry == 0 ? real_string_hash(alg, m, &prime)
                                       : real_file_hash(alg, m, entry, pos, entry == 2 ? prefix : nullptr, &prime);
              cx.rep.count("digests_compared");
              cx.rep.count("digests_from_reused_object");
              if (again != want) {
                const char *an[] = {"sha1", "md5", "sha256"};
                vh::J d;
                d.str("got", vh::hex(again)).str("want", vh::hex(want)).num("first_message_len", (long long)prime.size()).num("len_mod_64", (long long)(eff % 64));
                cx.rep.violation(std::string("C07|digest-mismatch|") + an[alg] + "|reused-hasher-object|" + (eff % 64 >= 56 ? "len-mod-64>=56" : "other"), "digest from a hasher object that was used before differs from libcrypto", d.done());
              }
            }
            if (got != want) {
              const char *an[] = {"sha1", "md5", "sha256"}, *en[] = {"string", "filebuf", "filebuf+prefix", "filebuf@pos"};
              vh::J d;
              d.str("got", vh::hex(got)).str("want", vh::hex(want)).num("effective_len", (long long)eff).num("len_mod_64", (long long)(eff % 64));
              std::string cls = eff % 64 >= 56 ? "len-mod-64>=56" : (eff >= R ? "past-refill" : "other");
              cx.rep.violation(std::string("C07|digest-mismatch|") + an[alg] + "|" + en[entry] + "|" + cls, "digest differs from libcrypto", d.done());
            } else {
              cx.rep.dist("residue", vh::tuple_hash({alg, entry, (long long)(eff % 64)}));
              cx.rep.dist("class", vh::tuple_hash({alg, entry, (long long)(eff % 64), (long long)(eff / R)}));
            }
            cx.rep.maxc("max_len", (long long)eff);
            if (cx.idx % 4099 == 0) cx.rep.sample(desc);
          }
        }
    // independent hasher objects used at the same time on several threads: each thread owns its objects and its
    // messages, nothing is shared by the harness, and every digest is compared with the value computed beforehand
    for (int round = 0; round < (cx.thorough ? 48 : 12); round++) {
      if (!cx.take()) continue;
      vh::Rng r = cx.case_rng();
      int alg = round % 3, NT = 2 + (int)r.below(5), entry = (round / 3) % 2; // string / file buffer
      const int NM = 24, ITER = cx.thorough ? 1500 : 400;
      std::vector<std::vector<bytes>> msgs(NT), want(NT);
      for (int t = 0; t < NT; t++)
        for (int q = 0; q < NM; q++) {
          static const size_t lens[] = {0, 1, 3, 55, 56, 57, 63, 64, 65, 119, 120, 128};
          size_t n = r.chance(60) ? lens[r.below(12)] : (size_t)r.below(entry ? 3 * R + 70 : 300);
          msgs[t].push_back(r.bytes_(n));
          want[t].push_back(ref::hash(alg, msgs[t].back().data(), n));
        }
      vh::J j;
      j.num("alg", alg).num("threads", NT).num("entry", entry).num("iterations", ITER).str("rng", std::to_string(vh::mix(cx.seed, (uint64_t)cx.idx)));
      std::string desc = j.done();
      cx.begin(desc);
      std::atomic<int> ready{0};
      std::atomic<long> wrong{0}, done{0};
      std::atomic<long> first_bad{-1};
      std::vector<std::thread> th;
      for (int t = 0; t < NT; t++)
        th.emplace_back([&, t]() {
          ready++;
          while (ready.load() < NT) {}
          for (int it = 0; it < ITER; it++) {
            int q = (it * 7 + t) % NM;
            bytes got = entry == 0 ? real_string_hash(alg, msgs[t][q]) : real_file_hash(alg, msgs[t][q], 1, 0, nullptr);
            done++;
            if (got != want[t][q]) {
              wrong++;
              long exp = -1;
              first_bad.compare_exchange_strong(exp, (long)t * 1000000 + it);
            }
          }
        });
      for (auto &x : th) x.join();
      cx.rep.count("digests_compared", done.load());
      cx.rep.count("digests_on_concurrent_threads", done.load());
      if (wrong.load()) {
        const char *an[] = {"sha1", "md5", "sha256"};
        vh::J d;
        d.num("wrong", wrong.load()).num("of", done.load()).num("threads", NT).num("first_bad_thread", first_bad.load() / 1000000).num("first_bad_iteration", first_bad.load() % 1000000);
        cx.rep.violation(std::string("C07|digest-mismatch|") + an[alg] + "|concurrent-independent-objects|" + (entry ? "filebuf" : "string"),
                         "digests computed at the same time by independent hasher objects on several threads differ from libcrypto", d.done());
      } else
        cx.rep.dist("class", vh::tuple_hash({alg, entry, NT, 9999}));
    }
    return;
  }
  // sub == "large": production-size and counter-wrap messages
  struct L { uint64_t len; int entry; }; // entry 0 = string, 4 = synthetic stream, 1 = file buffer on a MemFile
  std::vector<L> ls;
  uint64_t P29 = 1ull << 29;
  if (cx.thorough) {
    for (uint64_t l : {P29 - 1, P29, P29 + 56, P29 + 64 + 3}) { ls.push_back({l, 4}); }
    ls.push_back({P29 + 56, 0});
    ls.push_back({P29 - 1, 0});
    ls.push_back({2 * P29 + 17, 4});
    ls.push_back({8 * P29 + 5, 4}); // 4 GiB + 5: past every 32-bit BYTE counter as well
  } else {
    ls.push_back({P29 + 56 + cx.seed % 7, 4});
  }
  // production refill boundary through the real file buffer (only meaningful without the H2 override)
  for (uint64_t l : {(uint64_t)R - 1, (uint64_t)R, (uint64_t)R + 1, 2 * (uint64_t)R + 63}) ls.push_back({l, 1});
  for (size_t i = 0; i < ls.size(); i++)
    for (int alg = 0; alg < 3; alg++) {
      if (!cx.take()) continue;
      uint64_t salt = vh::mix(cx.seed, (uint64_t)cx.idx);
      vh::J j;
      j.num("len", (long long)ls[i].len).num("alg", alg).num("entry", ls[i].entry).str("salt", std::to_string(salt));
      std::string desc = j.done();
      cx.begin(desc);
      bytes got, want;
      HashFactory hf;
      Hashmaster *h = hf.getHasher(hf.getType((u8_t)alg));
      got.resize(h->gethlen());
      if (ls[i].entry == 4) {
        Synth s(ls[i].len, salt);
        h->getFileHash(&s, got.data());
        ref::Hasher rh(alg);
        uint8_t buf[4096];
        for (uint64_t p = 0; p < ls[i].len;) {
          size_t k = (size_t)std::min<uint64_t>(4096, ls[i].len - p);
          for (size_t q = 0; q < k; q++) buf[q] = Synth::pat(p + q, salt);
          rh.update(buf, k);
          p += k;
        }
        want = rh.final();
      } else {
        bytes m((size_t)ls[i].len);
        for (size_t q = 0; q < m.size(); q += 4096) m[q] = Synth::pat(q, salt);
        if (!m.empty()) m.back() = 0x5a;
        if (ls[i].entry == 0) h->getStringHash(m.data(), (u32_t)m.size(), got.data());
        else got = real_file_hash(alg, m, 1, 0, nullptr);
        want = ref::hash(alg, m.data(), m.size());
      }
      delete h;
      cx.rep.count("digests_compared");
      cx.rep.count("large_messages");
      cx.rep.maxc("max_len", (long long)ls[i].len);
      if (got != want) {
        vh::J d;
        d.str("got", vh::hex(got)).str("want", vh::hex(want));
        cx.rep.violation(std::string("C07|digest-mismatch|large|") + (ls[i].len >= P29 ? "len>=2^29" : "refill-boundary"), "digest of a large message differs from libcrypto", d.done());
      } else
        cx.rep.dist("class", vh::tuple_hash({alg, ls[i].entry, (long long)ls[i].len}));
      cx.rep.sample(desc);
    }
}

// ----------------------------------------------------------------------------------------------
static bytes real_hmac(int hm, const uint8_t key[16], const bytes &m, size_t pos) {
  vh::MemFile mf;
  mf.data = m;
  FILE *f = mf.open("r+");
  fseek(f, (long)pos, SEEK_SET);
  hmac h;
  uint8_t out[64];
  memset(out, 0xEE, sizeof out);
  uint8_t k[16];
  memcpy(k, key, 16);
  h.gethmac((u8_t)hm, k, f, out);
  fclose(f);
  int hl = ref::hlen_of(hm);
  for (int i = hl; i < 64; i++)
    if (out[i] != 0xEE) return bytes(); // wrote past the tag length
  return bytes(out, out + hl);
}
static bool real_cmp(int hm, const uint8_t key[16], const bytes &m, size_t pos, const bytes &tag) {
  vh::MemFile mf;
  mf.data = m;
  FILE *f = mf.open("r+");
  fseek(f, (long)pos, SEEK_SET);
  hmac h;
  uint8_t k[16];
  memcpy(k, key, 16);
  bool r = h.cmphmac((u8_t)hm, k, f, tag.data());
  fclose(f);
  return r;
}


// tags that differ from the right one in MORE than one byte, shaped to defeat broken comparisons (sums, xor folds,
// word-wise or prefix/suffix compares)
static std::vector<std::pair<std::string, bytes>> tag_variants(const bytes &want, vh::Rng &r) {
  std::vector<std::pair<std::string, bytes>> v;
  int hl = (int)want.size();
  auto two = [&](int i, int j, uint8_t di, uint8_t dj, const char *fam) {
    if (i == j) return;
    bytes t = want;
    t[i] ^= di; t[j] ^= dj;
    v.push_back({fam, t});
  };
  int ri = (int)r.below(hl), rj = (int)r.below(hl);
  two(0, 1, 0x80, 0x80, "two-bytes-0x80"); two(0, hl - 1, 0x80, 0x80, "two-bytes-0x80"); two(hl - 2, hl - 1, 0x80, 0x80, "two-bytes-0x80"); two(ri, rj, 0x80, 0x80, "two-bytes-0x80");
  for (uint8_t d : {(uint8_t)1, (uint8_t)0x40, (uint8_t)0x7f}) { two(ri, rj, d, (uint8_t)(256 - d), "diffs-sum-256"); two(0, hl - 1, d, (uint8_t)(256 - d), "diffs-sum-256"); }
  two(ri, rj, 0x5a, 0x5a, "equal-diffs-xor-fold-0"); two(1, hl - 2, 0x01, 0x01, "equal-diffs-xor-fold-0");
  { bytes t = want; for (int k = 0; k < 4; k++) t[(ri + k * 3) % hl] ^= 0x40; v.push_back({"four-diffs-0x40", t}); }
  { bytes t = want; for (auto &b : t) b = (uint8_t)~b; v.push_back({"all-bytes-inverted", t}); }
  { bytes t = want; for (auto &b : t) b = (uint8_t)(b + 1); v.push_back({"all-bytes-plus-1", t}); }
  for (int k : {1, 4, 8, 16, hl - 4, hl - 1}) {
    if (k <= 0 || k >= hl) continue;
    { bytes t(hl, 0); memcpy(t.data(), want.data(), k); for (int q = k; q < hl; q++) t[q] = (uint8_t)(want[q] ^ 0xA5); v.push_back({"only-prefix-right-" + std::to_string(k), t}); }
    { bytes t(hl, 0); for (int q = 0; q < hl - k; q++) t[q] = (uint8_t)(want[q] ^ 0xA5); memcpy(t.data() + hl - k, want.data() + hl - k, k); v.push_back({"only-suffix-right-" + std::to_string(k), t}); }
  }
  { bytes t(want.rbegin(), want.rend()); v.push_back({"reversed", t}); }
  { bytes t = want; std::rotate(t.begin(), t.begin() + 1, t.end()); v.push_back({"rotated", t}); }
  { bytes t(hl, 0); v.push_back({"all-zero", t}); }
  return v;
}

void run_C08(Ctx &cx) {
  if (cx.args.s("sub") == "large") {
    // hashed span of 2^29 bytes and a little more: the inner hash input crosses the 2^32-bit length counter
    for (int hm = 0; hm < 3; hm++)
      for (uint64_t extra : {(uint64_t)0, (uint64_t)57}) {
        if (!cx.thorough && extra && hm != (int)(cx.seed % 3)) continue;
        if (!cx.take()) continue;
        vh::Rng r = cx.case_rng();
        uint8_t key[16];
        r.fill(key, 16);
        size_t n = ((size_t)1 << 29) - 64 + (size_t)extra;
        bytes m(n);
        for (size_t q = 0; q < n; q += 512) m[q] = (uint8_t)(q >> 9) ^ (uint8_t)r.s;
        if (n) m[n - 1] = 0xA7;
        vh::J j;
        j.num("len", (long long)n).num("hmode", hm).str("key", vh::hex(key, 16));
        cx.begin(j.done());
        bytes got = real_hmac(hm, key, m, 0);
        bytes want = ref::hmac(hm, key, 16, m.data(), n);
        cx.rep.count("hmacs_compared");
        cx.rep.count("large_spans");
        if (got != want) {
          vh::J d;
          d.str("got", vh::hex(got)).str("want", vh::hex(want));
          cx.rep.violation("C08|hmac-mismatch|large|span>=2^29-64", "gethmac differs from RFC 2104 HMAC for a span crossing the 2^32-bit counter", d.done());
        } else
          cx.rep.dist("class", vh::tuple_hash({777, hm, (long long)extra}));
        cx.rep.sample(j.done());
      }
    return;
  }
  const size_t nmax = cx.thorough ? 2100 : 600;
  // (1) message level
  for (size_t n = 0; n <= nmax; n++)
    for (int hm = 0; hm < 3; hm++)
      for (int pi = 0; pi < 4; pi++) {
        if (!cx.take()) continue;
        vh::Rng r = cx.case_rng();
        uint8_t key[16];
        r.fill(key, 16);
        int kk = (int)r.below(10);
        if (kk == 0) memset(key, 0, 16);
        if (kk == 1) memset(key, 0xff, 16);
        size_t pos = pi == 0 ? 0 : pi == 1 ? std::min<size_t>(1, n) : pi == 2 ? std::min<size_t>(48, n) : n;
        bytes m = r.bytes_(n);
        vh::J j;
        j.num("len", (long long)n).num("hmode", hm).num("pos", (long long)pos).str("key", vh::hex(key, 16)).str("rng", std::to_string(vh::mix(cx.seed, (uint64_t)cx.idx)));
        std::string desc = j.done();
        cx.begin(desc);
        bytes got = real_hmac(hm, key, m, pos);
        bytes want = ref::hmac(hm, key, 16, m.data() + pos, n - pos);
        cx.rep.count("hmacs_compared");
        size_t inner = 64 + (n - pos);
        if (got != want) {
          vh::J d;
          d.str("got", vh::hex(got)).str("want", vh::hex(want)).num("inner_len_mod_64", (long long)(inner % 64));
          const char *hn[] = {"sha1", "md5", "sha256"};
          cx.rep.violation(std::string("C08|hmac-mismatch|") + hn[hm] + (inner % 64 >= 56 ? "|inner-mod-64>=56" : "|other"), "gethmac differs from RFC 2104 HMAC over [pos,EOF)", d.done());
        } else
          cx.rep.dist("class", vh::tuple_hash({hm, (long long)(inner % 64), pi}));
        // comparison oracle on a subset
        if (n % 7 == 0 && got == want) {
          if (!real_cmp(hm, key, m, pos, want)) cx.rep.violation("C08|cmphmac-rejects-right-tag", "cmphmac rejected the correct tag", desc);
          int hl = ref::hlen_of(hm);
          int bit = (int)r.below(8 * hl);
          int nflips = n % 49 == 0 ? 8 * hl : 1;
          if (n % 21 == 0)
            for (auto &tv : tag_variants(want, r)) {
              if (tv.second == want) continue;
              cx.rep.count("tag_multibyte_variants");
              if (real_cmp(hm, key, m, pos, tv.second)) {
                vh::J d;
                d.str("family", tv.first).str("right", vh::hex(want)).str("accepted", vh::hex(tv.second));
                cx.rep.violation("C08|cmphmac-accepts-wrong-tag|multi|" + tv.first, "cmphmac accepted a tag that differs in several bytes", d.done());
              }
            }
          for (int q = 0; q < nflips; q++) {
            int b = nflips == 1 ? bit : q;
            bytes t = want;
            t[b / 8] ^= (uint8_t)(1 << (b % 8));
            cx.rep.count("tag_bitflips");
            if (real_cmp(hm, key, m, pos, t)) {
              vh::J d;
              d.num("bit", b).num("byte", b / 8).num("hlen", hl);
              cx.rep.violation("C08|cmphmac-accepts-wrong-tag|byte=" + std::string(b / 8 == hl - 1 ? "last" : b / 8 == 0 ? "first" : "middle"), "cmphmac accepted a tag that differs in one bit", d.done());
            }
          }
        }
        if (cx.idx % 2003 == 0) cx.rep.sample(desc);
      }
  // (1b) one hmac object reused for several computations, hash mode changing between calls
  for (int rep = 0; rep < (cx.thorough ? 400 : 60); rep++) {
    if (!cx.take()) continue;
    vh::Rng r = cx.case_rng();
    cx.begin("{\"family\":\"reused-hmac-object\",\"rep\":" + std::to_string(rep) + "}");
    hmac h;
    int prev = -1;
    for (int q = 0; q < 8; q++) {
      int hm = (int)r.below(3);
      uint8_t key[16];
      r.fill(key, 16);
      bytes m = r.bytes_((size_t)r.below(400));
      vh::MemFile mf;
      mf.data = m;
      FILE *f = mf.open("r+");
      uint8_t out[64];
      memset(out, 0xEE, sizeof out);
      bool viacmp = r.chance(40);
      bytes want = ref::hmac(hm, key, 16, m.data(), m.size());
      cx.rep.count("hmacs_compared");
      cx.rep.count("hmacs_from_reused_object");
      if (viacmp) {
        bool okr = h.cmphmac((u8_t)hm, key, f, want.data());
        fclose(f);
        if (!okr) {
          vh::J d;
          d.num("hmode", hm).num("previous_hmode", prev).num("call_index", q);
          cx.rep.violation("C08|reused-object|cmphmac-rejects-right-tag", "a reused hmac object rejected the correct tag", d.done());
        }
        // and a wrong tag (the right tag of ANOTHER hash mode, zero-extended) must be rejected
        int other = (hm + 1 + (int)r.below(2)) % 3;
        bytes wt = ref::hmac(other, key, 16, m.data(), m.size());
        wt.resize(64, 0);
        vh::MemFile mf2;
        mf2.data = m;
        FILE *f2 = mf2.open("r+");
        bool acc = h.cmphmac((u8_t)hm, key, f2, wt.data());
        fclose(f2);
        if (acc) {
          vh::J d;
          d.num("hmode", hm).num("tag_of_hmode", other).num("call_index", q);
          cx.rep.violation("C08|reused-object|cmphmac-accepts-other-modes-tag", "a reused hmac object accepted the tag of another hash mode", d.done());
        }
      } else {
        h.gethmac((u8_t)hm, key, f, out);
        fclose(f);
        if (memcmp(out, want.data(), want.size()) || out[want.size()] != 0xEE) {
          vh::J d;
          d.num("hmode", hm).num("previous_hmode", prev).num("call_index", q).str("got", vh::hex(out, want.size())).str("want", vh::hex(want));
          cx.rep.violation(std::string("C08|reused-object|hmac-mismatch|") + (prev >= 0 && prev != hm ? "after-mode-switch" : "same-mode"), "gethmac from a reused hmac object differs from RFC 2104", d.done());
        }
      }
      prev = hm;
    }
    cx.rep.dist("class", vh::tuple_hash({4242, rep}));
  }
  // (1c) independent hmac objects used at the same time on several threads (own objects, own streams, own messages)
  for (int round = 0; round < (cx.thorough ? 36 : 9); round++) {
    if (!cx.take()) continue;
    vh::Rng r = cx.case_rng();
    int hm = round % 3, NT = 2 + (int)r.below(5);
    const int NM = 16, ITER = cx.thorough ? 800 : 250;
    std::vector<std::vector<bytes>> msgs(NT), want(NT);
    std::vector<std::array<uint8_t, 16>> keys(NT);
    for (int t = 0; t < NT; t++) {
      r.fill(keys[t].data(), 16);
      for (int q = 0; q < NM; q++) {
        static const size_t lens[] = {0, 1, 55, 56, 63, 64, 65, 119, 120, 200};
        size_t n = r.chance(60) ? lens[r.below(10)] : (size_t)r.below(600);
        msgs[t].push_back(r.bytes_(n));
        want[t].push_back(ref::hmac(hm, keys[t].data(), 16, msgs[t].back().data(), n));
      }
    }
    vh::J j;
    j.num("hmode", hm).num("threads", NT).num("iterations", ITER).str("rng", std::to_string(vh::mix(cx.seed, (uint64_t)cx.idx)));
    std::string desc = j.done();
    cx.begin(desc);
    std::atomic<int> ready{0};
    std::atomic<long> wrong{0}, rejected{0}, done{0};
    std::vector<std::thread> th;
    for (int t = 0; t < NT; t++)
      th.emplace_back([&, t]() {
        ready++;
        while (ready.load() < NT) {}
        for (int it = 0; it < ITER; it++) {
          int q = (it * 5 + t) % NM;
          if (it % 3 == 2) { if (!real_cmp(hm, keys[t].data(), msgs[t][q], 0, want[t][q])) rejected++; }
          else if (real_hmac(hm, keys[t].data(), msgs[t][q], 0) != want[t][q]) wrong++;
          done++;
        }
      });
    for (auto &x : th) x.join();
    cx.rep.count("hmacs_compared", done.load());
    cx.rep.count("hmacs_on_concurrent_threads", done.load());
    if (wrong.load() || rejected.load()) {
      static const char *hn[] = {"sha1", "md5", "sha256"};
      vh::J d;
      d.num("wrong_tags", wrong.load()).num("right_tags_rejected", rejected.load()).num("of", done.load()).num("threads", NT);
      cx.rep.violation(std::string("C08|hmac-mismatch|") + hn[hm] + "|concurrent-independent-objects", "HMACs computed at the same time by independent hmac objects on several threads differ from RFC 2104", d.done());
    } else
      cx.rep.dist("class", vh::tuple_hash({4343, hm, NT}));
  }
  // (2) file level: tag position, range and zero fill on generated files, all T
  const size_t c = VH_CHUNK;
  for (int T = 1; T <= 16; T++)
    for (int cm = 0; cm < 5; cm++)
      for (size_t ni = 0; ni < (cx.thorough ? 80 : 20); ni++) {
        if (!cx.take()) continue;
        vh::Rng r = cx.case_rng();
        ops::EncParams ep;
        ep.cmode = cm; ep.hmode = (int)r.below(3); ep.T = T;
        r.fill(ep.key, 16);
        ep.seed = ops::gen_seed(r);
        size_t n = ni < 8 ? ni * 16 + (size_t)r.below(16) : (size_t)r.below(4 * c + 40);
        uint64_t pseed = r.next();
        bytes P = ops::gen_plain(n, pseed);
        std::string desc = ops::params_json(n, ep, pseed);
        cx.begin(desc);
        ops::Result e = ops::encrypt(P, ep);
        cx.rep.count("file_tags_checked");
        if (!e.ret || e.out.size() < 48 + 20 * (size_t)T + 16) { cx.rep.violation("C08|file|encrypt-failed", "could not produce a file", desc); continue; }
        bytes want = ref::hmac(ep.hmode, ep.key, 16, e.out.data() + 48, e.out.size() - 48);
        int hl = ref::hlen_of(ep.hmode);
        if (memcmp(e.out.data() + 10, want.data(), hl)) {
          vh::J d;
          d.str("got", vh::hex(e.out.data() + 10, hl)).str("want", vh::hex(want)).num("T", T).num("body_mod_64", (long long)((e.out.size() - 48) % 64));
          // is it the HMAC of some other range?  (diagnostic only)
          for (size_t st : {(size_t)0, (size_t)10, (size_t)48 + 20 * (size_t)T})
            if (ref::hmac(ep.hmode, ep.key, 16, e.out.data() + st, e.out.size() - st) == bytes(e.out.begin() + 10, e.out.begin() + 10 + hl)) d.num("matches_range_from", (long long)st);
          cx.rep.violation("C08|file-tag-mismatch", "bytes [10,10+hlen) are not HMAC(key, file[48:])", d.done());
        } else
          cx.rep.dist("class", vh::tuple_hash({1000 + T, cm, ep.hmode, (long long)((e.out.size() - 48) % 64)}));
        for (size_t o = 10 + hl; o < 48; o++)
          if (e.out[o] != 0) { cx.rep.violation("C08|zero-fill", "non-zero byte between the tag and offset 48", desc); break; }
        // the file's own tag must verify through cmphmac-at-48 (what verify() does) and every bit flip must not
        if (ni % 5 == 0) {
          bytes tag(e.out.begin() + 10, e.out.begin() + 10 + 64 > e.out.end() ? e.out.end() : e.out.begin() + 10 + 64);
          tag.resize(64);
          if (!real_cmp(ep.hmode, ep.key, e.out, 48, tag)) cx.rep.violation("C08|cmphmac-rejects-file-tag", "cmphmac rejected a genuine file's tag", desc);
          for (int b = 0; b < 8 * hl; b++) {
            bytes t = tag;
            t[b / 8] ^= (uint8_t)(1 << (b % 8));
            cx.rep.count("tag_bitflips");
            if (real_cmp(ep.hmode, ep.key, e.out, 48, t)) {
              vh::J d;
              d.num("bit", b).num("hlen", hl);
              cx.rep.violation("C08|cmphmac-accepts-wrong-tag|byte=" + std::string(b / 8 == hl - 1 ? "last" : b / 8 == 0 ? "first" : "middle"), "cmphmac accepted a file tag that differs in one bit", d.done());
            }
          }
        }
      }
}
