// C16: base64 codec vs RFC 4648 (independent reference), key validator predicate, real -k path under ASan.
#include "ctx.hpp"
#include "base64.h"
#include "getval.h"

namespace {
const char *ALPHA = "ABCDEFGHIJKLMNOPQRSTUVWXYZabcdefghijklmnopqrstuvwxyz0123456789+/";
bool in_alpha(unsigned char c) { return c && strchr(ALPHA, c) != nullptr; }

// what the property demands of the validator for candidate string s
enum Want { MUST_ACCEPT, MUST_REJECT, DONT_CARE };
Want classify(const std::string &s) {
  if (s.size() != 24) return MUST_REJECT;
  for (int i = 0; i < 22; i++)
    if (!in_alpha((unsigned char)s[i])) return MUST_REJECT;
  if (s[22] != '=' || s[23] != '=') return MUST_REJECT;
  int v = ref::b64val((unsigned char)s[21]);
  return (v & 15) ? DONT_CARE : MUST_ACCEPT;
}

void check_candidate(Ctx &cx, const std::string &s, const std::string &family) {
  cx.rep.count("validator_candidates");
  Want w = classify(s);
  bool acc = is_valid_b64((const u8_t *)s.data(), (int)s.size());
  vh::J j;
  j.str("candidate_hex", vh::hex((const uint8_t *)s.data(), s.size())).num("len", (long long)s.size()).boolean("accepted", acc).str("family", family);
  if (w == MUST_REJECT && acc) {
    int eq = 0;
    for (char ch : s) eq += ch == '=';
    std::string why = s.size() != 24 ? "wrong-length" : (eq != 2 ? "pad-count-" + std::to_string(std::min(eq, 3)) : "bad-char-or-pad-position");
    cx.rep.violation("C16|validator-accepts|" + why, "key validator accepted a string that is not the encoding of 16 bytes", j.done());
  }
  if (w == MUST_ACCEPT && !acc) cx.rep.violation("C16|validator-rejects-canonical-key", "key validator rejected a canonical 24-character key", j.done());
  cx.rep.count(w == MUST_ACCEPT ? "cand_must_accept" : w == MUST_REJECT ? "cand_must_reject" : "cand_dont_care");
  if (acc && s.size() == 24) {
    // whatever is accepted must decode to exactly 16 bytes inside the key buffer
    uint8_t buf[16 + 64];
    memset(buf, 0xC7, sizeof buf);
    std::string z = s;
    z.push_back(0);
    base64_to_hex((const u8_t *)z.data(), 24, buf);
    size_t beyond = 0;
    for (size_t i = 16; i < sizeof buf; i++) beyond += buf[i] != 0xC7;
    if (beyond) {
      vh::J d;
      d.str("candidate_hex", vh::hex((const uint8_t *)s.data(), s.size())).num("bytes_past_16", (long long)beyond);
      cx.rep.violation("C16|accepted-key-overflows-buffer", "an accepted key decodes to more than 16 bytes", d.done());
    }
    bytes want;
    if (ref::b64dec(s, want) && want.size() == 16 && memcmp(buf, want.data(), 16))
      cx.rep.violation("C16|accepted-key-decodes-wrong", "an accepted key decodes to other bytes than RFC 4648 says", j.done());
    cx.rep.count("accepted_decoded_with_canary");
  }
  cx.rep.dist("class", vh::fnv(s.data(), s.size(), 77));
}
} // namespace

void run_C16(Ctx &cx) {
  // ---- encoder: 3-byte groups (exhaustive in thorough), tails, random strings ------------------
  for (int hi = 0; hi < 256; hi++) {
    if (!cx.take()) continue;
    cx.begin("{\"family\":\"enc-groups\",\"first_byte\":" + std::to_string(hi) + "}");
    size_t step = cx.thorough ? 1 : 16;
    std::vector<uint8_t> in;
    for (int mid = 0; mid < 256; mid++)
      for (int lo = (int)((hi + mid + cx.seed) % step); lo < 256; lo += (int)step) { in.push_back((uint8_t)hi); in.push_back((uint8_t)mid); in.push_back((uint8_t)lo); }
    std::vector<uint8_t> out(in.size() / 3 * 4 + 8, 0xC7);
    hex_to_base64(in.data(), (int)in.size(), out.data());
    std::string want = ref::b64enc(in.data(), in.size());
    cx.rep.count("enc_groups", (long long)in.size() / 3);
    if (memcmp(out.data(), want.data(), want.size()) || out[want.size()] != 0 || out[want.size() + 1] != 0xC7) {
      size_t k = 0;
      while (k < want.size() && out[k] == (uint8_t)want[k]) k++;
      vh::J d;
      d.num("first_diff_group", (long long)(k / 4)).str("input_group", vh::hex(in.data() + 3 * (k / 4), 3));
      cx.rep.violation("C16|encode-mismatch|groups", "hex_to_base64 differs from RFC 4648 on a 3-byte group (or terminator wrong)", d.done());
    }
    cx.rep.dist("class", vh::tuple_hash({1, hi}));
  }
  if (cx.take()) {
    cx.begin("{\"family\":\"enc-tails\"}");
    for (int a = 0; a < 256; a++) {
      for (int b = -1; b < 256; b++) {
        uint8_t in[2] = {(uint8_t)a, (uint8_t)(b < 0 ? 0 : b)};
        int len = b < 0 ? 1 : 2;
        uint8_t out[16];
        memset(out, 0xC7, sizeof out);
        hex_to_base64(in, len, out);
        std::string want = ref::b64enc(in, len);
        cx.rep.count("enc_tails");
        if (memcmp(out, want.data(), 4) || out[4] != 0 || out[5] != 0xC7) {
          vh::J d;
          d.str("input", vh::hex(in, len)).str("got", std::string((char *)out, 4)).str("want", want);
          cx.rep.violation("C16|encode-mismatch|tail" + std::to_string(len), "hex_to_base64 differs from RFC 4648 on a padded tail", d.done());
          a = 256;
          break;
        }
      }
    }
    cx.rep.dist("class", vh::tuple_hash({2, 0}));
  }
  for (int rep = 0; rep < (cx.thorough ? 200 : 20); rep++) {
    if (!cx.take()) continue;
    vh::Rng r = cx.case_rng();
    cx.begin("{\"family\":\"random-strings\",\"rep\":" + std::to_string(rep) + "}");
    for (size_t len = 0; len <= 100; len++) {
      bytes m = r.bytes_(len);
      std::vector<uint8_t> out(4 * ((len + 2) / 3) + 9, 0xC7);
      uint8_t dummy = 0;
      hex_to_base64(len ? m.data() : &dummy, (int)len, out.data());
      std::string want = ref::b64enc(m.data(), len);
      cx.rep.count("random_strings");
      bool ok = (want.empty() || !memcmp(out.data(), want.data(), want.size())) && out[want.size()] == 0;
      for (size_t i = want.size() + 1; i < out.size(); i++) ok = ok && out[i] == 0xC7;
      if (!ok) {
        vh::J d;
        d.str("input", vh::hex(m)).str("want", want);
        cx.rep.violation("C16|encode-mismatch|string|len-mod-3=" + std::to_string(len % 3), "hex_to_base64 output / terminator / extent differs from RFC 4648", d.done());
        continue;
      }
      // decoding inverts it
      bytes dec(len + 8, 0xC7);
      base64_to_hex(out.data(), (int)want.size(), dec.data());
      bool dok = len == 0 || !memcmp(dec.data(), m.data(), len);
      for (size_t i = len; i < dec.size(); i++) dok = dok && dec[i] == 0xC7;
      if (!dok) {
        vh::J d;
        d.str("encoded", want).str("want", vh::hex(m)).str("got", vh::hex(dec.data(), len));
        cx.rep.violation("C16|decode-not-inverse|len-mod-3=" + std::to_string(len % 3), "base64_to_hex(hex_to_base64(x)) != x or wrote past the decoded length", d.done());
      }
      cx.rep.dist("class", vh::tuple_hash({3, (long long)len, rep}));
    }
  }
  // ---- decoder: 4-symbol groups (exhaustive in thorough) and padded tails -------------------------
  for (int s0 = 0; s0 < 64; s0++)
    for (int s1 = 0; s1 < 64; s1 += 16) {
      if (!cx.take()) continue;
      cx.begin("{\"family\":\"dec-groups\",\"s0\":" + std::to_string(s0) + ",\"s1_from\":" + std::to_string(s1) + "}");
      std::string in;
      size_t step = cx.thorough ? 1 : 8;
      for (int a = s1; a < s1 + 16; a++)
        for (int b = 0; b < 64; b++)
          for (int d = (int)((a + b + cx.seed) % step); d < 64; d += (int)step) { in += ALPHA[s0]; in += ALPHA[a]; in += ALPHA[b]; in += ALPHA[d]; }
      bytes out(in.size() / 4 * 3 + 8, 0xC7), want;
      base64_to_hex((const u8_t *)in.data(), (int)in.size(), out.data());
      ref::b64dec(in, want);
      cx.rep.count("dec_groups", (long long)in.size() / 4);
      if (memcmp(out.data(), want.data(), want.size()) || out[want.size()] != 0xC7) {
        size_t k = 0;
        while (k < want.size() && out[k] == want[k]) k++;
        vh::J d;
        d.str("symbols", in.substr(4 * (k / 3), 4));
        cx.rep.violation("C16|decode-mismatch|groups", "base64_to_hex differs from RFC 4648 on a 4-symbol group", d.done());
      }
      cx.rep.dist("class", vh::tuple_hash({4, s0, s1}));
    }
  if (cx.take()) {
    cx.begin("{\"family\":\"dec-tails\"}");
    for (int a = 0; a < 64; a++)
      for (int b = 0; b < 64; b++)
        for (int c3 = -1; c3 < 64; c3++) {
          std::string in;
          in += ALPHA[a]; in += ALPHA[b];
          if (c3 < 0) in += "==";
          else { in += ALPHA[c3]; in += '='; }
          // prefix with one full group so the tail is handled after ordinary groups too
          std::string full = std::string("QUJD") + in;
          uint8_t out[16];
          memset(out, 0xC7, sizeof out);
          base64_to_hex((const u8_t *)full.data(), 8, out);
          bytes want;
          ref::b64dec(full, want);
          cx.rep.count("dec_tails");
          if (memcmp(out, want.data(), want.size()) || out[want.size()] != 0xC7) {
            vh::J d;
            d.str("symbols", full).str("want", vh::hex(want)).str("got", vh::hex(out, want.size() + 1));
            cx.rep.violation(std::string("C16|decode-mismatch|tail") + (c3 < 0 ? "==" : "="), "base64_to_hex differs from RFC 4648 on a padded tail", d.done());
            a = 64; b = 64;
            break;
          }
        }
    cx.rep.dist("class", vh::tuple_hash({5, 0}));
  }
  // ---- validator --------------------------------------------------------------------------------
  for (int kc = 0; kc < (cx.thorough ? 40 : 6); kc++) {
    if (!cx.take()) continue;
    vh::Rng r = cx.case_rng();
    uint8_t key[16];
    r.fill(key, 16);
    if (kc == 1) memset(key, 0, 16);
    if (kc == 2) memset(key, 0xff, 16);
    std::string K = ref::b64enc(key, 16);
    cx.begin("{\"family\":\"validator\",\"base_key\":\"" + K + "\"}");
    check_candidate(cx, K, "canonical");
    for (int pos = 0; pos < 24; pos++)
      for (int v = 0; v < 256; v++) {
        std::string s = K;
        s[pos] = (char)v;
        check_candidate(cx, s, "substitute");
      }
    for (int pos = 0; pos <= 24; pos++) {
      for (int v : {(int)'A', (int)'=', (int)'/', 0x80, (int)' '}) {
        std::string s = K;
        s.insert(s.begin() + pos, (char)v);
        check_candidate(cx, s, "insert");
      }
      if (pos < 24) {
        std::string s = K;
        s.erase(s.begin() + pos);
        check_candidate(cx, s, "delete");
      }
    }
    // every placement of 0..4 '=' within the last 6 positions (64 subsets), on alphabet-only text
    std::string body = K.substr(0, 22) + "AA";
    for (int mask = 0; mask < 64; mask++) {
      if (__builtin_popcount(mask) > 4) continue;
      std::string s = body;
      for (int b = 0; b < 6; b++)
        if (mask & (1 << b)) s[18 + b] = '=';
      check_candidate(cx, s, "pad-placement");
    }
    for (int k2 = 0; k2 < 200; k2++) { // random placements anywhere
      std::string s = body;
      int cnt = (int)r.below(5);
      for (int q = 0; q < cnt; q++) s[r.below(24)] = '=';
      check_candidate(cx, s, "pad-random");
    }
    for (size_t len = 0; len <= 40; len++) { // lengths
      std::string s;
      for (size_t i = 0; i < len; i++) s += ALPHA[r.below(64)];
      check_candidate(cx, s, "length");
      if (len >= 2) { s[len - 1] = '='; s[len - 2] = '='; check_candidate(cx, s, "length-padded"); }
      if (len >= 1) { std::string t = s; t[len - 1] = '='; check_candidate(cx, t, "length-padded1"); }
    }
    // a valid key followed by more text, every total length 25..600 (lengths congruent to 24 modulo 256 included)
    for (size_t L = 25; L <= 600; L++) {
      std::string s = K;
      while (s.size() < L) s += (char)(L % 3 == 0 ? ALPHA[r.below(64)] : (L % 3 == 1 ? '=' : '!'));
      check_candidate(cx, s, "valid-prefix-plus-tail");
    }
    // all values of the 22nd symbol (canonical and non-canonical endings)
    for (int v = 0; v < 64; v++) { std::string s = K; s[21] = ALPHA[v]; check_candidate(cx, s, "last-symbol"); }
  }
  // ---- printed key is accepted and yields the same key -----------------------------------------------
  for (int kc = 0; kc < (cx.thorough ? 20000 : 1000); kc++) {
    if (!cx.take()) continue;
    vh::Rng r = cx.case_rng();
    uint8_t key[16];
    r.fill(key, 16);
    char outk[128];
    memset(outk, 0x7e, sizeof outk);
    hex_to_base64(key, 16, (u8_t *)outk); // what printkey() prints
    std::string s(outk);
    cx.begin("{\"family\":\"printed-key\",\"key\":\"" + vh::hex(key, 16) + "\"}");
    cx.rep.count("printed_keys");
    uint8_t back[32];
    memset(back, 0xC7, sizeof back);
    bool ok = s.size() == 24 && is_valid_b64((const u8_t *)s.data(), (int)s.size());
    if (ok) { base64_to_hex((const u8_t *)s.c_str(), 24, back); ok = !memcmp(back, key, 16) && back[16] == 0xC7; }
    if (!ok) {
      vh::J d;
      d.str("key", vh::hex(key, 16)).str("printed", s);
      cx.rep.violation("C16|printed-key-roundtrip", "the key string printed at encryption is rejected or decodes to another key", d.done());
    }
    cx.rep.dist("class", vh::fnv(key, 16, 99));
  }
  // ---- the real -k path (getopt parser allocates the real 16-byte key buffer; ASan watches it) ------
  for (int kc = 0; kc < (cx.thorough ? 3000 : 300); kc++) {
    if (!cx.take()) continue;
    vh::Rng r = cx.case_rng();
    uint8_t key[16];
    r.fill(key, 16);
    std::string s = ref::b64enc(key, 16);
    int how = kc % 10;
    if (how == 1) s[23] = 'A';                     // one '='
    if (how == 2) { s[22] = 'A'; s[23] = 'A'; }     // no '='
    if (how == 3) s[21] = '=';                      // three '='
    if (how == 4) s[r.below(22)] = (char)(1 + r.below(255));
    if (how == 5) s.pop_back();
    if (how == 6) s += "A";
    if (how == 7) { s[22] = '='; s[23] = 'A'; }
    if (how == 8) s += std::string(256, 'A');   // 280 characters: a valid key followed by 256 more
    if (how == 9 && kc % 20 == 9) s += std::string(512, '=');
    vh::J j;
    j.str("family", "cli-k-path").str("k_hex", vh::hex((const uint8_t *)s.data(), s.size()));
    cx.begin(j.done());
    cx.rep.count("k_path_runs");
    std::string a0 = "wencry", a1 = "-v", a2 = "-n", a3 = "-i", a4 = "/dev/null", a5 = "-k";
    char *argv[] = {&a0[0], &a1[0], &a2[0], &a3[0], &a4[0], &a5[0], &s[0], nullptr};
    u8_t *res = get_v_opt(7, argv);
    Want w = classify(s);
    if (res) {
      vpak_t *p = (vpak_t *)res;
      if (w == MUST_REJECT) cx.rep.violation("C16|k-path-accepts-invalid-key", "-k accepted a string the property says must be rejected", j.done());
      bytes want;
      if (p->key && ref::b64dec(s, want) && want.size() == 16 && memcmp(p->key, want.data(), 16))
        cx.rep.violation("C16|k-path-wrong-key", "-k decoded the key to other bytes than RFC 4648 says", j.done());
      if (p->fp) fclose(p->fp);
      delete[] p->key;
      delete p;
    } else if (w == MUST_ACCEPT)
      cx.rep.violation("C16|k-path-rejects-canonical-key", "-k rejected a canonical key", j.done());
    cx.rep.dist("class", vh::fnv(s.data(), s.size(), 123));
    if (kc < 3) cx.rep.sample(j.done());
  }
}
