// E-REF: independent executable specification for wencry, built on OpenSSL libcrypto.
// Shares no code with /repo.  ref_selftest() checks it against published vectors; a
// self-test failure is a harness failure (exit 2), never a property violation.
#pragma once
#include <openssl/evp.h>
#include <openssl/hmac.h>
#include <stdint.h>
#include <stdio.h>
#include <stdlib.h>
#include <string.h>
#include <string>
#include <vector>

namespace ref {
typedef std::vector<uint8_t> bytes;

inline const EVP_MD *md_of(int hmode) {
  switch (hmode) {
  case 0: return EVP_sha1();
  case 1: return EVP_md5();
  case 2: return EVP_sha256();
  }
  return nullptr;
}
inline int hlen_of(int hmode) { return hmode == 0 ? 20 : hmode == 1 ? 16 : hmode == 2 ? 32 : -1; }

inline bytes hash(int hmode, const uint8_t *d, size_t n) {
  bytes out(EVP_MAX_MD_SIZE);
  unsigned int l = 0;
  EVP_MD_CTX *c = EVP_MD_CTX_new();
  EVP_DigestInit_ex(c, md_of(hmode), nullptr);
  EVP_DigestUpdate(c, d, n);
  EVP_DigestFinal_ex(c, out.data(), &l);
  EVP_MD_CTX_free(c);
  out.resize(l);
  return out;
}
// incremental hasher for very large synthetic messages
struct Hasher {
  EVP_MD_CTX *c;
  Hasher(int hmode) { c = EVP_MD_CTX_new(); EVP_DigestInit_ex(c, md_of(hmode), nullptr); }
  void update(const uint8_t *d, size_t n) { EVP_DigestUpdate(c, d, n); }
  bytes final() {
    bytes out(EVP_MAX_MD_SIZE);
    unsigned int l = 0;
    EVP_DigestFinal_ex(c, out.data(), &l);
    out.resize(l);
    return out;
  }
  ~Hasher() { EVP_MD_CTX_free(c); }
};
inline bytes hmac(int hmode, const uint8_t *key, size_t klen, const uint8_t *d, size_t n) {
  bytes out(EVP_MAX_MD_SIZE);
  unsigned int l = 0;
  HMAC(md_of(hmode), key, (int)klen, d, n, out.data(), &l);
  out.resize(l);
  return out;
}

inline const EVP_CIPHER *cipher_of(int cmode) {
  switch (cmode) {
  case 0: return EVP_aes_128_ecb();
  case 1: return EVP_aes_128_cbc();
  case 2: return EVP_aes_128_ctr();
  case 3: return EVP_aes_128_cfb128();
  case 4: return EVP_aes_128_ofb();
  }
  return nullptr;
}
// One continuous cipher stream, fed block by block (no padding).
struct Stream {
  EVP_CIPHER_CTX *c;
  Stream(int cmode, bool enc, const uint8_t key[16], const uint8_t iv[16]) {
    c = EVP_CIPHER_CTX_new();
    EVP_CipherInit_ex(c, cipher_of(cmode), nullptr, key, iv, enc ? 1 : 0);
    EVP_CIPHER_CTX_set_padding(c, 0);
  }
  Stream(const Stream &) = delete;
  void run(const uint8_t *in, uint8_t *out, size_t n) { // n multiple of 16
    int l = 0;
    if (n) EVP_CipherUpdate(c, out, &l, in, (int)n);
    if ((size_t)l != n) { fprintf(stderr, "ref::Stream short update %d/%zu\n", l, n); abort(); }
  }
  ~Stream() { EVP_CIPHER_CTX_free(c); }
};
inline void aes_block(bool enc, const uint8_t key[16], const uint8_t in[16], uint8_t out[16]) {
  uint8_t z[16] = {0};
  Stream s(0, enc, key, z);
  s.run(in, out, 16);
}

// ---- RFC 4648 base64, written from the RFC text --------------------------------------
static const char B64[] = "ABCDEFGHIJKLMNOPQRSTUVWXYZabcdefghijklmnopqrstuvwxyz0123456789+/";
inline std::string b64enc(const uint8_t *d, size_t n) {
  std::string o;
  size_t i = 0;
  for (; i + 3 <= n; i += 3) {
    uint32_t v = (d[i] << 16) | (d[i + 1] << 8) | d[i + 2];
    o += B64[(v >> 18) & 63]; o += B64[(v >> 12) & 63]; o += B64[(v >> 6) & 63]; o += B64[v & 63];
  }
  if (n - i == 1) {
    uint32_t v = d[i] << 16;
    o += B64[(v >> 18) & 63]; o += B64[(v >> 12) & 63]; o += "==";
  } else if (n - i == 2) {
    uint32_t v = (d[i] << 16) | (d[i + 1] << 8);
    o += B64[(v >> 18) & 63]; o += B64[(v >> 12) & 63]; o += B64[(v >> 6) & 63]; o += '=';
  }
  return o;
}
inline int b64val(int c) {
  if (c >= 'A' && c <= 'Z') return c - 'A';
  if (c >= 'a' && c <= 'z') return c - 'a' + 26;
  if (c >= '0' && c <= '9') return c - '0' + 52;
  if (c == '+') return 62;
  if (c == '/') return 63;
  return -1;
}
// strict decoder: returns false unless s is a well-formed padded base64 string
// (canonical=true additionally requires zero pad bits).
inline bool b64dec(const std::string &s, bytes &out, bool canonical = false) {
  out.clear();
  if (s.size() % 4) return false;
  for (size_t i = 0; i < s.size(); i += 4) {
    int v[4], pad = 0;
    for (int j = 0; j < 4; j++) {
      char c = s[i + j];
      if (c == '=') {
        if (i + 4 != s.size() || j < 2) return false;
        pad++;
        v[j] = 0;
      } else {
        if (pad) return false;
        v[j] = b64val((unsigned char)c);
        if (v[j] < 0) return false;
      }
    }
    uint32_t w = (v[0] << 18) | (v[1] << 12) | (v[2] << 6) | v[3];
    out.push_back(w >> 16);
    if (pad < 2) out.push_back((w >> 8) & 255);
    if (pad < 1) out.push_back(w & 255);
    if (canonical && pad == 2 && (v[1] & 15)) return false;
    if (canonical && pad == 1 && (v[2] & 3)) return false;
  }
  return true;
}

// ---- the .wenc format as C02 states it ------------------------------------------------
static const uint8_t MAGIC[8] = {0xC3, 0xA5, 0xC3, 0xA5, 0xC3, 0xA5, 0xC3, 0xA5};

inline bytes iv_chain(const uint8_t *seed, size_t seedlen, int T) {
  bytes ivs;
  bytes h = hash(0, seed, seedlen);
  ivs.insert(ivs.end(), h.begin(), h.end());
  for (int i = 1; i < T; i++) {
    h = hash(0, h.data(), 20);
    ivs.insert(ivs.end(), h.begin(), h.end());
  }
  return ivs;
}
inline bytes pkcs7(const bytes &P) {
  bytes r = P;
  int pad = 16 - (int)(P.size() % 16);
  r.insert(r.end(), pad, (uint8_t)pad);
  return r;
}
// body: chunks of `chunk` bytes dealt round-robin to T continuous streams, every stream
// started from IV[0][0:16] (C02 as given).
inline bytes body_transform(const bytes &in, bool enc, int cmode, const uint8_t key[16], const uint8_t iv16[16], int T,
                            size_t chunk) {
  bytes out(in.size());
  std::vector<Stream *> st;
  for (int i = 0; i < T; i++) st.push_back(new Stream(cmode, enc, key, iv16));
  size_t off = 0, j = 0;
  while (off < in.size()) {
    size_t n = std::min(chunk, in.size() - off);
    st[j % T]->run(in.data() + off, out.data() + off, n);
    off += n;
    j++;
  }
  for (auto s : st) delete s;
  return out;
}
inline bytes wenc_reference(const bytes &P, const uint8_t key[16], int cmode, int hmode, const uint8_t *seed, size_t seedlen,
                            int T, size_t chunk) {
  bytes f;
  f.insert(f.end(), MAGIC, MAGIC + 8);
  f.push_back((uint8_t)cmode);
  f.push_back((uint8_t)hmode);
  f.insert(f.end(), 38, 0);
  bytes ivs = iv_chain(seed, seedlen, T);
  f.insert(f.end(), ivs.begin(), ivs.end());
  bytes body = body_transform(pkcs7(P), true, cmode, key, ivs.data(), T, chunk);
  f.insert(f.end(), body.begin(), body.end());
  bytes tag = hmac(hmode, key, 16, f.data() + 48, f.size() - 48);
  memcpy(f.data() + 10, tag.data(), tag.size());
  return f;
}
// Independent authenticity verdict + decryption of a byte string (for oracles).
// returns: 0 ok, 1 too short, 2 tag mismatch, 3 mode out of range, 4 bad magic.
inline int wenc_authentic(const bytes &F, const uint8_t key[16]) {
  if (F.size() < 8 || memcmp(F.data(), MAGIC, 8)) return 4;
  if (F.size() < 10) return 1;
  int cm = F[8], hm = F[9];
  if (F.size() < 74) return 1;
  if (cm > 4 || hm > 2) return 3;
  bytes tag = hmac(hm, key, 16, F.data() + 48, F.size() - 48);
  if (memcmp(tag.data(), F.data() + 10, tag.size())) return 2;
  return 0;
}
inline bool wenc_decrypt(const bytes &F, const uint8_t key[16], int T, size_t chunk, bytes &P) {
  P.clear();
  if (wenc_authentic(F, key) != 0) return false;
  size_t bodyoff = 48 + 20 * (size_t)T;
  if (F.size() < bodyoff + 16 || (F.size() - bodyoff) % 16) return false;
  bytes body(F.begin() + bodyoff, F.end());
  bytes pl = body_transform(body, false, F[8], key, F.data() + 48, T, chunk);
  int pad = pl.back();
  if (pad < 1 || pad > 16) return false;
  pl.resize(pl.size() - pad);
  P = pl;
  return true;
}

// ---- self test against published vectors -----------------------------------------------
inline bytes unhex(const char *h) {
  bytes r;
  for (; h[0] && h[1]; h += 2) {
    unsigned v;
    sscanf(h, "%2x", &v);
    r.push_back((uint8_t)v);
  }
  return r;
}
inline std::string tohex(const uint8_t *d, size_t n) {
  std::string s;
  char b[3];
  for (size_t i = 0; i < n; i++) { snprintf(b, 3, "%02x", d[i]); s += b; }
  return s;
}
inline std::string tohex(const bytes &b) { return tohex(b.data(), b.size()); }

inline int selftest() {
  int bad = 0;
#define RCHK(c, what) do { if (!(c)) { fprintf(stderr, "REF-SELFTEST FAIL: %s\n", what); bad++; } } while (0)
  { // FIPS-197 Appendix C.1
    bytes k = unhex("000102030405060708090a0b0c0d0e0f"), p = unhex("00112233445566778899aabbccddeeff");
    uint8_t o[16], b[16];
    aes_block(true, k.data(), p.data(), o);
    RCHK(tohex(o, 16) == "69c4e0d86a7b0430d8cdb78070b4c55a", "FIPS-197 C.1 enc");
    aes_block(false, k.data(), o, b);
    RCHK(!memcmp(b, p.data(), 16), "FIPS-197 C.1 dec");
  }
  { // SP 800-38A F.1.1, F.2.1, F.5.1, F.3.13, F.4.1 (first two blocks each)
    bytes k = unhex("2b7e151628aed2a6abf7158809cf4f3c");
    bytes p = unhex("6bc1bee22e409f96e93d7e117393172aae2d8a571e03ac9c9eb76fac45af8e51");
    bytes iv = unhex("000102030405060708090a0b0c0d0e0f"), ctriv = unhex("f0f1f2f3f4f5f6f7f8f9fafbfcfdfeff");
    struct { int m; const uint8_t *iv; const char *ct; } v[] = {
        {0, iv.data(), "3ad77bb40d7a3660a89ecaf32466ef97f5d3d58503b9699de785895a96fdbaaf"},
        {1, iv.data(), "7649abac8119b246cee98e9b12e9197d5086cb9b507219ee95db113a917678b2"},
        {2, ctriv.data(), "874d6191b620e3261bef6864990db6ce9806f66b7970fdff8617187bb9fffdff"},
        {3, iv.data(), "3b3fd92eb72dad20333449f8e83cfb4ac8a64537a0b3a93fcde3cdad9f1ce58b"},
        {4, iv.data(), "3b3fd92eb72dad20333449f8e83cfb4a7789508d16918f03f53c52dac54ed825"}};
    for (auto &t : v) {
      bytes o(32), b(32);
      { Stream s(t.m, true, k.data(), t.iv); s.run(p.data(), o.data(), 16); s.run(p.data() + 16, o.data() + 16, 16); }
      RCHK(tohex(o) == t.ct, "SP800-38A enc");
      { Stream s(t.m, false, k.data(), t.iv); s.run(o.data(), b.data(), 32); }
      RCHK(b == p, "SP800-38A dec");
    }
  }
  { // FIPS 180 / RFC 1321
    const char *abc = "abc";
    RCHK(tohex(hash(0, (const uint8_t *)abc, 3)) == "a9993e364706816aba3e25717850c26c9cd0d89d", "SHA1 abc");
    RCHK(tohex(hash(1, (const uint8_t *)abc, 3)) == "900150983cd24fb0d6963f7d28e17f72", "MD5 abc");
    RCHK(tohex(hash(2, (const uint8_t *)abc, 3)) == "ba7816bf8f01cfea414140de5dae2223b00361a396177a9cb410ff61f20015ad", "SHA256 abc");
    const char *m448 = "abcdbcdecdefdefgefghfghighijhijkijkljklmklmnlmnomnopnopq";
    RCHK(tohex(hash(0, (const uint8_t *)m448, 56)) == "84983e441c3bd26ebaae4aa1f95129e5e54670f1", "SHA1 448");
    RCHK(tohex(hash(2, (const uint8_t *)m448, 56)) == "248d6a61d20638b8e5c026930c3e6039a33ce45964ff2167f6ecedd419db06c1", "SHA256 448");
    RCHK(tohex(hash(1, (const uint8_t *)"", 0)) == "d41d8cd98f00b204e9800998ecf8427e", "MD5 empty");
    const char *m80 = "12345678901234567890123456789012345678901234567890123456789012345678901234567890";
    RCHK(tohex(hash(1, (const uint8_t *)m80, 80)) == "57edf4a22be3c955ac49da2e2107b67a", "MD5 80");
  }
  { // RFC 2202 case 2 (SHA1, MD5), RFC 4231 case 2 (SHA256)
    const char *k = "Jefe", *d = "what do ya want for nothing?";
    RCHK(tohex(hmac(0, (const uint8_t *)k, 4, (const uint8_t *)d, 28)) == "effcdf6ae5eb2fa2d27416d5f184df9c259a7c79", "HMAC-SHA1");
    RCHK(tohex(hmac(1, (const uint8_t *)k, 4, (const uint8_t *)d, 28)) == "750c783e6ab0b503eaa86e310a5db738", "HMAC-MD5");
    RCHK(tohex(hmac(2, (const uint8_t *)k, 4, (const uint8_t *)d, 28)) ==
             "5bdcc146bf60754e6a042426089575c75a003f089d2739839dec58b964ec3843", "HMAC-SHA256");
  }
  { // RFC 4648 section 10
    const char *in[] = {"", "f", "fo", "foo", "foob", "fooba", "foobar"};
    const char *out[] = {"", "Zg==", "Zm8=", "Zm9v", "Zm9vYg==", "Zm9vYmE=", "Zm9vYmFy"};
    for (int i = 0; i < 7; i++) {
      RCHK(b64enc((const uint8_t *)in[i], strlen(in[i])) == out[i], "RFC4648 enc");
      bytes d;
      RCHK(b64dec(out[i], d) && std::string(d.begin(), d.end()) == in[i], "RFC4648 dec");
    }
    // cross-check against OpenSSL's encoder on a few lengths
    for (int n = 0; n < 40; n++) {
      uint8_t buf[40], o[80];
      for (int i = 0; i < n; i++) buf[i] = (uint8_t)(i * 37 + n);
      int l = EVP_EncodeBlock(o, buf, n);
      RCHK(b64enc(buf, n) == std::string((char *)o, l), "b64 vs EVP_EncodeBlock");
    }
  }
#undef RCHK
  return bad;
}
} // namespace ref
