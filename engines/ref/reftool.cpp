// reftool: command-line face of E-REF (used by setup self-tests and by the CLI oracle).
#include "ref.hpp"
#include <fstream>
#include <iostream>
#include <iterator>
static ref::bytes slurp(const char *p, bool &ok) {
  std::ifstream f(p, std::ios::binary);
  ok = (bool)f;
  return ref::bytes((std::istreambuf_iterator<char>(f)), std::istreambuf_iterator<char>());
}
int main(int argc, char **argv) {
  if (argc < 2) return 2;
  std::string c = argv[1];
  if (c == "selftest") {
    int bad = ref::selftest();
    printf("selftest failures=%d\n", bad);
    return bad ? 2 : 0;
  }
  if (c == "digest" && argc == 4) { // digest <hmode> <hex>
    ref::bytes m = ref::unhex(argv[3]);
    printf("%s\n", ref::tohex(ref::hash(atoi(argv[2]), m.data(), m.size())).c_str());
    return 0;
  }
  if (c == "hmac" && argc == 5) { // hmac <hmode> <keyhex> <hex>
    ref::bytes k = ref::unhex(argv[3]), m = ref::unhex(argv[4]);
    printf("%s\n", ref::tohex(ref::hmac(atoi(argv[2]), k.data(), k.size(), m.data(), m.size())).c_str());
    return 0;
  }
  if (c == "b64enc" && argc == 3) {
    ref::bytes m = ref::unhex(argv[2]);
    printf("%s\n", ref::b64enc(m.data(), m.size()).c_str());
    return 0;
  }
  if (c == "b64dec" && argc == 3) {
    ref::bytes o;
    if (!ref::b64dec(argv[2], o)) { printf("INVALID\n"); return 0; }
    printf("%s\n", ref::tohex(o).c_str());
    return 0;
  }
  if (c == "auth" && argc == 4) { // auth <file> <keyhex>  -> prints code
    bool ok;
    ref::bytes F = slurp(argv[2], ok), k = ref::unhex(argv[3]);
    if (!ok || k.size() != 16) { printf("NOFILE\n"); return 0; }
    printf("%d\n", ref::wenc_authentic(F, k.data()));
    return 0;
  }
  if (c == "decrypt" && argc >= 6) { // decrypt <file> <keyhex> <T> <chunk> [outfile]
    bool ok;
    ref::bytes F = slurp(argv[2], ok), k = ref::unhex(argv[3]), P;
    if (!ok || k.size() != 16) { printf("NOFILE\n"); return 0; }
    if (!ref::wenc_decrypt(F, k.data(), atoi(argv[4]), (size_t)atoll(argv[5]), P)) { printf("FAIL\n"); return 0; }
    if (argc >= 7) {
      std::ofstream o(argv[6], std::ios::binary);
      o.write((const char *)P.data(), P.size());
      printf("OK %zu\n", P.size());
    } else
      printf("OK %s\n", ref::tohex(P).c_str());
    return 0;
  }
  if (c == "encrypt" && argc == 10) { // encrypt <file> <keyhex> <cmode> <hmode> <seedhex> <T> <chunk> <outfile>
    bool ok;
    ref::bytes P = slurp(argv[2], ok), k = ref::unhex(argv[3]), seed = ref::unhex(argv[6]);
    ref::bytes F = ref::wenc_reference(P, k.data(), atoi(argv[4]), atoi(argv[5]), seed.data(), seed.size(), atoi(argv[7]), (size_t)atoll(argv[8]));
    std::ofstream o(argv[9], std::ios::binary);
    o.write((const char *)F.data(), F.size());
    return 0;
  }
  return 2;
}
