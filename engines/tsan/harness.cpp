// E-TSAN: the real pipeline on real threads under ThreadSanitizer, with seeded delays injected at the hook
// points (between critical sections).  The delay injector takes no lock and shares no log, so it adds no
// happens-before edge that could hide a race.  Reports are classified IN-PROCESS by address through
// __tsan_on_report: only addresses inside a chunk buffer (iobuffer array) count for C14.
#include "../api/ctx.hpp"
#include "wencry_verif_hooks.h"
#include <atomic>
#include <sched.h>
#include <signal.h>
#include <sys/wait.h>

extern "C" {
int __tsan_get_report_data(void *report, const char **description, int *count, int *stack_count, int *mop_count, int *loc_count,
                           int *mutex_count, int *thread_count, int *unique_tid_count, void **sleep_trace, unsigned long trace_size);
int __tsan_get_report_mop(void *report, unsigned long idx, int *tid, void **addr, int *size, int *write, int *atomic, void **trace,
                          unsigned long trace_size);
extern char __executable_start;
}

namespace {
std::atomic<long> g_bufbase{0}, g_bufend{0}, g_ctrlbase{0}, g_ctrlend{0};
std::atomic<uint64_t> g_delay_seed{1};
std::atomic<int> g_delay_mode{1};
std::atomic<long> g_events{0};
struct Rep { char type[32]; long addr; int inscope; long pc[2]; int write[2]; int size; };
Rep g_reps[256];
std::atomic<int> g_nreps{0};
std::atomic<int> g_inscope{0}, g_outscope{0}, g_other{0};
}

extern "C" void __tsan_on_report(void *report) {
  const char *d = "";
  int c, sc, mc = 0, lc, mtc, tc, utc;
  void *st[2];
  __tsan_get_report_data(report, &d, &c, &sc, &mc, &lc, &mtc, &tc, &utc, st, 2);
  Rep r;
  memset(&r, 0, sizeof r);
  strncpy(r.type, d ? d : "?", sizeof r.type - 1);
  bool in = false;
  for (int i = 0; i < mc && i < 2; i++) {
    int tid, size, w, a;
    void *addr = nullptr;
    void *tr[4] = {0};
    __tsan_get_report_mop(report, (unsigned long)i, &tid, &addr, &size, &w, &a, tr, 4);
    r.addr = (long)addr;
    r.size = size;
    r.write[i] = w;
    r.pc[i] = (long)tr[0] - (long)&__executable_start;
    long A = (long)addr;
    if (A >= g_bufbase.load() && A < g_bufend.load()) in = true;
  }
  r.inscope = in;
  if (strcmp(r.type, "data-race")) g_other++;
  else if (in) g_inscope++;
  else g_outscope++;
  int k = g_nreps.fetch_add(1);
  if (k < 256) g_reps[k] = r;
}

extern "C" void wencry_verif_event(int kind, int id, long a, long b) {
  if (kind == WV_SETUP_BUF) { g_bufbase = a; g_bufend = a + (long)id * b; return; }
  if (kind == WV_SETUP_CTRL) { g_ctrlbase = a; g_ctrlend = a + (long)id * b; return; }
  g_events.fetch_add(1, std::memory_order_relaxed);
  int mode = g_delay_mode.load(std::memory_order_relaxed);
  if (!mode) return;
  static thread_local uint64_t s = 0;
  if (!s) s = g_delay_seed.load(std::memory_order_relaxed) ^ ((uint64_t)(uintptr_t)&s * 0x9E3779B97F4A7C15ull);
  s ^= s << 13; s ^= s >> 7; s ^= s << 17;
  unsigned v = (unsigned)(s >> 33);
  switch (v % 8) {
  case 0: case 1: sched_yield(); break;
  case 2: for (volatile int i = 0; i < (int)(v % 2000); i++) {} break;
  case 3: if (mode > 1) usleep(v % 200); break;
  default: break;
  }
}

int main(int argc, char **argv) {
  Ctx cx(argc, argv);
  if (ref::selftest() != 0) { fprintf(stderr, "harness: reference self-test failed\n"); return 2; }
  if (!freopen("/dev/null", "w", stdout)) return 2;
  const size_t c = VH_CHUNK;
  long long count = cx.args.n("count", 300);
  static const int Ts[] = {2, 4, 8, 3, 1, 16};
  long tot_in = 0, tot_out = 0, tot_other = 0, tot_events = 0;
  for (long long k = 0; k < count; k++) {
    if (!cx.take()) continue;
    vh::Rng r = cx.case_rng();
    ops::EncParams ep;
    ep.cmode = (int)r.below(5); ep.hmode = (int)r.below(3); ep.T = Ts[r.below(r.chance(85) ? 3 : 6)];
    r.fill(ep.key, 16);
    ep.seed = ops::gen_seed(r);
    size_t chunks = (size_t)r.below(7);
    size_t n;
    switch ((int)r.below(3)) {
    case 0: n = chunks * c; break;
    case 1: n = chunks * c + c - 1 - (size_t)r.below(16); break;
    default: n = chunks * c + (size_t)r.below(c); break;
    }
    uint64_t pseed = r.next();
    bytes P = ops::gen_plain(n, pseed);
    g_delay_seed = r.next() | 1;
    g_delay_mode = (int)r.below(3);
    std::string desc = ops::params_json(n, ep, pseed);
    cx.begin(desc);
    // one forked child per execution: the driver never runs product code, so nothing one execution leaves behind
    // (static state, recycled heap) can reach the next - history dependence is C15's business, not C03/C04/C14's
    int pfd[2];
    if (pipe(pfd)) { perror("pipe"); return 2; }
    fflush(nullptr);
    pid_t pid = fork();
    if (pid < 0) { perror("fork"); return 2; }
    if (pid > 0) {
      close(pfd[1]);
      long cnt[5] = {0, 0, 0, 0, 0};
      ssize_t got = read(pfd[0], cnt, sizeof cnt);
      close(pfd[0]);
      int st = 0;
      waitpid(pid, &st, 0);
      if (got == (ssize_t)sizeof cnt) {
        cx.rep.count("executions", cnt[0]);
        tot_in += cnt[1]; tot_out += cnt[2]; tot_other += cnt[3]; tot_events += cnt[4];
        cx.rep.dist("class", vh::tuple_hash({ep.T, ep.cmode, (long long)n, g_delay_mode.load()}));
        if (cx.idx % 53 == 0) cx.rep.sample(desc);
        continue;
      }
      // the child died: die the same way so that the runner sees the crash with this case in the progress file
      if (WIFSIGNALED(st)) { signal(WTERMSIG(st), SIG_DFL); raise(WTERMSIG(st)); }
      abort();
    }
    close(pfd[0]);
    int before = g_nreps.load();
    ops::Result e = ops::encrypt(P, ep);
    bytes want = ref::wenc_reference(P, ep.key, ep.cmode, ep.hmode, ep.seed.data(), ep.seed.size(), ep.T, c);
    if (!e.ret || e.out != want) cx.rep.violation("C03|real-threads|enc-output-differs", "encryption on real threads with injected delays differs from the reference", desc);
    ops::Result d = ops::decrypt(want, ep.key, ep.T);
    if (!d.ret || d.out != P) cx.rep.violation("C03|real-threads|dec-output-differs", "decryption on real threads with injected delays differs from the plaintext", desc);
    int after = g_nreps.load();
    for (int q = before; q < after && q < 256; q++) {
      const Rep &rp = g_reps[q];
      vh::J j;
      j.str("type", rp.type).num("addr_offset_in_buffers", rp.inscope ? rp.addr - g_bufbase.load() : -1).num("size", rp.size);
      j.num("pc0", rp.pc[0]).num("pc1", rp.pc[1]).num("write0", rp.write[0]).num("write1", rp.write[1]).boolean("in_chunk_buffer", rp.inscope);
      if (!strcmp(rp.type, "data-race") && rp.inscope)
        cx.rep.violation("C14|tsan|race-in-chunk-buffer|pcs=" + std::to_string(std::min(rp.pc[0], rp.pc[1])) + "," + std::to_string(std::max(rp.pc[0], rp.pc[1])),
                         "ThreadSanitizer: data race on an address inside a chunk buffer", j.done());
      else
        cx.rep.violation("TSAN-OUT-OF-SCOPE|" + std::string(rp.type) + "|pcs=" + std::to_string(std::min(rp.pc[0], rp.pc[1])) + "," + std::to_string(std::max(rp.pc[0], rp.pc[1])),
                         "ThreadSanitizer report outside the chunk buffers (logged, not a C14 verdict)", j.done());
    }
    {
      long cnt[5] = {2, g_inscope.load(), g_outscope.load(), g_other.load(), g_events.load()};
      (void)!write(pfd[1], cnt, sizeof cnt);
      _exit(0);
    }
  }
  cx.rep.count("tsan_reports_in_scope", tot_in);
  cx.rep.count("tsan_reports_out_of_scope", tot_out);
  cx.rep.count("tsan_reports_other_types", tot_other);
  cx.rep.count("hook_events_with_delay_injection", tot_events);
  cx.rep.finish();
  return 0;
}
