// E-FUZZ (C11 thorough): libFuzzer over (a) raw bytes -> verify/decrypt, (b) genuine file + edits to its
// unauthenticated header bytes / truncation -> verify/decrypt.  Oracle = C11's: no crash / sanitizer report (libFuzzer
// + ASan + UBSan), success only if independently authentic, no output on failure, output <= body.
#include "../api/ops.hpp"
using vh::bytes;

extern "C" int LLVMFuzzerInitialize(int *, char ***) {
  if (!freopen("/dev/null", "w", stdout)) return 0;
  if (ref::selftest() != 0) { fprintf(stderr, "harness: reference self-test failed\n"); _exit(2); }
  return 0;
}
static void oracle(const bytes &F, const uint8_t key[16], int T, const char *cls) {
  ops::Result v = ops::verify(F, key, T);
  ops::Result d = ops::decrypt(F, key, T);
  int auth = ref::wenc_authentic(F, key);
  size_t bodyoff = 48 + 20 * (size_t)T;
  size_t body = F.size() > bodyoff ? F.size() - bodyoff : 0;
  const char *bad = nullptr;
  if ((v.ret || d.ret) && auth != 0) bad = "accepted-not-authentic";
  else if (!d.ret && (!d.writes.empty() || !d.out.empty())) bad = "output-on-failure";
  else if (d.ret && d.out.size() > body) bad = "output-larger-than-body";
  else if (v.ret != d.ret) bad = "verify-decrypt-disagree";
  else if (!v.writes.empty()) bad = "verify-wrote";
  if (bad) {
    fprintf(stderr, "C11-ORACLE: %s|%s T=%d len=%zu\n", bad, cls, T, F.size());
    abort();
  }
}
extern "C" int LLVMFuzzerTestOneInput(const uint8_t *data, size_t size) {
  if (size < 19) return 0;
  uint8_t key[16];
  memcpy(key, data, 16);
  int T = 1 + data[16] % 4;
  int sel = data[17];
  const uint8_t *p = data + 18;
  size_t n = size - 18;
  if ((sel & 1) == 0) {
    bytes F(p, p + n);
    if (sel & 2 && F.size() >= 8) memcpy(F.data(), ref::MAGIC, 8);
    oracle(F, key, T, "raw");
  } else {
    // genuine file from the first bytes as plaintext, then edits: [off_lo, off_hi, value] triples restricted to
    // unauthenticated bytes [8,10) and [10+hlen,48), plus an optional truncation
    if (n < 4) return 0;
    int cm = p[0] % 5, hm = p[1] % 3;
    size_t pl = p[2] % 200, ne = p[3] % 6;
    if (n < 4 + pl + 3 * ne) return 0;
    bytes P(p + 4, p + 4 + pl);
    uint8_t seed[4] = {(uint8_t)(1 + p[0] % 250), 7, 9, 0};
    bytes F = ref::wenc_reference(P, key, cm, hm, seed, 3, T, VH_CHUNK);
    const uint8_t *e = p + 4 + pl;
    int hl = ref::hlen_of(hm);
    for (size_t i = 0; i < ne; i++, e += 3) {
      size_t off = e[0] % 40;
      size_t o = off < 2 ? 8 + off : (size_t)(10 + hl) + (off - 2) % (size_t)(38 - hl);
      if (o < 48) F[o] = e[1];
    }
    oracle(F, key, T, "genuine+unauthenticated-edits");
  }
  return 0;
}
