// Common harness utilities: PRNG, in-memory FILE streams with write logs, JSON-ish reporting.
#pragma once
#ifndef _GNU_SOURCE
#define _GNU_SOURCE
#endif
#include <errno.h>
#include <fcntl.h>
#include <stdarg.h>
#include <stdint.h>
#include <stdio.h>
#include <stdlib.h>
#include <string.h>
#include <sys/types.h>
#include <unistd.h>
#include <map>
#include <set>
#include <string>
#include <vector>

namespace vh {
typedef std::vector<uint8_t> bytes;

struct Rng {
  uint64_t s;
  explicit Rng(uint64_t seed) : s(seed) {}
  uint64_t next() {
    uint64_t z = (s += 0x9E3779B97F4A7C15ull);
    z = (z ^ (z >> 30)) * 0xBF58476D1CE4E5B9ull;
    z = (z ^ (z >> 27)) * 0x94D049BB133111EBull;
    return z ^ (z >> 31);
  }
  uint64_t below(uint64_t n) { return n ? next() % n : 0; }
  bool chance(int pct) { return (int)below(100) < pct; }
  bytes bytes_(size_t n) {
    bytes b(n);
    size_t i = 0;
    while (i < n) {
      uint64_t v = next();
      for (int k = 0; k < 8 && i < n; k++, i++) b[i] = (uint8_t)(v >> (8 * k));
    }
    return b;
  }
  void fill(uint8_t *p, size_t n) {
    bytes b = bytes_(n);
    if (n) memcpy(p, b.data(), n);
  }
};
inline uint64_t mix(uint64_t a, uint64_t b) {
  Rng r(a * 0x9E3779B97F4A7C15ull ^ (b + 0x7F4A7C15ull));
  r.next();
  return r.next();
}

inline std::string hex(const uint8_t *d, size_t n) {
  static const char *H = "0123456789abcdef";
  std::string s;
  s.reserve(2 * n);
  for (size_t i = 0; i < n; i++) { s += H[d[i] >> 4]; s += H[d[i] & 15]; }
  return s;
}
inline std::string hex(const bytes &b) { return hex(b.data(), b.size()); }
inline bytes unhex(const std::string &h) {
  bytes r;
  for (size_t i = 0; i + 1 < h.size(); i += 2) r.push_back((uint8_t)strtoul(h.substr(i, 2).c_str(), nullptr, 16));
  return r;
}
inline std::string hexcap(const bytes &b, size_t cap = 96) {
  if (b.size() <= cap) return hex(b);
  return hex(b.data(), cap) + "...(" + std::to_string(b.size()) + "B)";
}

// ---- in-memory FILE with a log of everything the code does to it ------------------------
struct WriteRec { size_t off, len; };
struct MemFile {
  bytes data;
  size_t pos = 0;
  std::vector<WriteRec> writes; // every write that reached the stream, in issue order
  bytes written_bytes;          // concatenation of written payloads (for crash-state rebuilds)
  bool closed = false;
  bool record_payload = false;
  size_t nreads = 0;
  size_t total_written = 0, oversize_writes = 0;
  bool allow_huge = false;
  size_t nwrites = 0, fail_write_call = 0; // k = the k-th write call and all later ones fail with ENOSPC
  size_t fail_read_call = 0; // 0 = never; k = the k-th read call and all later ones fail with EIO
  static ssize_t rd(void *c, char *buf, size_t n) {
    MemFile *m = (MemFile *)c;
    m->nreads++;
    if (m->fail_read_call && m->nreads >= m->fail_read_call) { // injected persistent I/O error (dead disk)
      errno = EIO;
      return -1;
    }
    if (m->pos >= m->data.size()) return 0;
    size_t k = std::min(n, m->data.size() - m->pos);
    memcpy(buf, m->data.data() + m->pos, k);
    m->pos += k;
    return (ssize_t)k;
  }
  static ssize_t wr(void *c, const char *buf, size_t n) {
    MemFile *m = (MemFile *)c;
    if (n == 0) return 0;
    m->nwrites++;
    if (m->fail_write_call && m->nwrites >= m->fail_write_call) { // injected persistent write error (disk full)
      errno = ENOSPC;
      return -1;
    }
    m->total_written += n;
    if (n > ((size_t)1 << 28) && !m->allow_huge) {
      // an absurd write (e.g. a length that wrapped around): log it, keep a small prefix, do not try to store it
      m->writes.push_back({m->pos, n});
      m->oversize_writes++;
      size_t k = 4096;
      if (m->pos + k > m->data.size()) m->data.resize(m->pos + k);
      memcpy(m->data.data() + m->pos, buf, k);
      m->pos += k;
      return (ssize_t)n;
    }
    if (m->pos + n > m->data.size()) m->data.resize(m->pos + n);
    memcpy(m->data.data() + m->pos, buf, n);
    m->writes.push_back({m->pos, n});
    if (m->record_payload) m->written_bytes.insert(m->written_bytes.end(), buf, buf + n);
    m->pos += n;
    return (ssize_t)n;
  }
  static int sk(void *c, off64_t *off, int whence) {
    MemFile *m = (MemFile *)c;
    off64_t np;
    if (whence == SEEK_SET) np = *off;
    else if (whence == SEEK_CUR) np = (off64_t)m->pos + *off;
    else if (whence == SEEK_END) np = (off64_t)m->data.size() + *off;
    else return -1;
    if (np < 0) return -1;
    m->pos = (size_t)np;
    *off = np;
    return 0;
  }
  static int cl(void *c) {
    ((MemFile *)c)->closed = true;
    return 0;
  }
  // mode "r": read-only semantics are NOT enforced by stdio for cookies opened "r+", so the input is
  // opened "r+" on purpose: a stray write to the input is then observable in `writes`.
  FILE *open(const char *mode, bool unbuffered = false, size_t bufsz = 0) {
    cookie_io_functions_t io = {rd, wr, sk, cl};
    pos = 0;
    closed = false;
    FILE *f = fopencookie(this, mode, io);
    if (!f) { perror("fopencookie"); abort(); }
    if (unbuffered) setvbuf(f, nullptr, _IONBF, 0);
    else if (bufsz) setvbuf(f, nullptr, _IOFBF, bufsz);
    return f;
  }
};

// ---- reporting ----------------------------------------------------------------------------
inline std::string jesc(const std::string &s) {
  std::string o;
  for (unsigned char c : s) {
    if (c == '"' || c == '\\') { o += '\\'; o += (char)c; }
    else if (c < 0x20 || c >= 0x7f) { char b[8]; snprintf(b, 8, "\\u%04x", c); o += b; }
    else o += (char)c;
  }
  return o;
}
struct J { // tiny ordered JSON object builder
  std::string s = "{";
  bool first = true;
  void k(const std::string &key) { if (!first) s += ","; first = false; s += "\"" + jesc(key) + "\":"; }
  J &str(const std::string &key, const std::string &v) { k(key); s += "\"" + jesc(v) + "\""; return *this; }
  J &num(const std::string &key, long long v) { k(key); s += std::to_string(v); return *this; }
  J &boolean(const std::string &key, bool v) { k(key); s += v ? "true" : "false"; return *this; }
  J &raw(const std::string &key, const std::string &v) { k(key); s += v; return *this; }
  std::string done() const { return s + "}"; }
};

struct Reporter {
  int progress_fd = -1, viol_fd = -1;
  std::string summary_path;
  std::map<std::string, long long> counters;
  std::map<std::string, std::set<uint64_t>> distinct;
  std::vector<std::string> samples;
  size_t max_samples = 6;
  long long nviol = 0;
  long long cur_case = -1;
  std::string cur_desc;
  void open(const std::string &base) {
    progress_fd = ::open((base + ".progress").c_str(), O_WRONLY | O_CREAT | O_TRUNC | O_CLOEXEC, 0644);
    viol_fd = ::open((base + ".viol.jsonl").c_str(), O_WRONLY | O_CREAT | O_APPEND | O_CLOEXEC, 0644);
    summary_path = base + ".summary.json";
  }
  // called before a case starts; on a crash the parent reads the last line to learn the witness
  void begin(long long idx, const std::string &desc_json) {
    cur_case = idx;
    cur_desc = desc_json;
    if (progress_fd >= 0) {
      std::string l = std::to_string(idx) + " " + desc_json + "\n";
      lseek(progress_fd, 0, SEEK_SET);
      (void)!ftruncate(progress_fd, 0);
      (void)!write(progress_fd, l.data(), l.size());
    }
    counters["cases"]++;
  }
  void sample(const std::string &json) {
    if (samples.size() < max_samples) samples.push_back(json);
  }
  void count(const std::string &k, long long d = 1) { counters[k] += d; }
  void maxc(const std::string &k, long long v) { if (counters.find(k) == counters.end() || counters[k] < v) counters[k] = v; }
  void dist(const std::string &k, uint64_t v) { distinct[k].insert(v); }
  void violation(const std::string &key, const std::string &what, const std::string &detail_json = "{}") {
    nviol++;
    J j;
    j.str("key", key).str("what", what).num("case", cur_case).raw("case_desc", cur_desc.empty() ? "{}" : cur_desc).raw("detail", detail_json);
    std::string l = j.done() + "\n";
    if (viol_fd >= 0) (void)!write(viol_fd, l.data(), l.size());
  }
  void finish() {
    J j;
    J c;
    for (auto &kv : counters) c.num(kv.first, kv.second);
    J d;
    for (auto &kv : distinct) d.num(kv.first, (long long)kv.second.size());
    std::string sm = "[";
    for (size_t i = 0; i < samples.size(); i++) { if (i) sm += ","; sm += samples[i]; }
    sm += "]";
    j.raw("counters", c.done()).raw("distinct", d.done()).raw("samples", sm).num("violations", nviol).boolean("complete", true);
    // distinct sets are also dumped so that the parent can union them across shards
    std::string ds = "{";
    bool f1 = true;
    for (auto &kv : distinct) {
      if (!f1) ds += ",";
      f1 = false;
      ds += "\"" + jesc(kv.first) + "\":[";
      bool f2 = true;
      size_t n = 0;
      for (uint64_t v : kv.second) {
        if (n++ >= 200000) break;
        if (!f2) ds += ",";
        f2 = false;
        ds += "\"" + std::to_string(v) + "\"";
      }
      ds += "]";
    }
    ds += "}";
    j.raw("distinct_sets", ds);
    std::string out = j.done();
    FILE *f = fopen(summary_path.c_str(), "w");
    if (f) { fwrite(out.data(), 1, out.size(), f); fclose(f); }
  }
};

inline uint64_t fnv(const void *p, size_t n, uint64_t h = 1469598103934665603ull) {
  const uint8_t *d = (const uint8_t *)p;
  for (size_t i = 0; i < n; i++) { h ^= d[i]; h *= 1099511628211ull; }
  return h;
}
inline uint64_t tuple_hash(std::initializer_list<long long> v) {
  uint64_t h = 1469598103934665603ull;
  for (long long x : v) h = fnv(&x, sizeof x, h);
  return h;
}

// argument parsing: --name value
struct Args {
  std::map<std::string, std::string> kv;
  Args(int argc, char **argv) {
    for (int i = 1; i + 1 < argc; i += 2)
      if (!strncmp(argv[i], "--", 2)) kv[argv[i] + 2] = argv[i + 1];
  }
  std::string s(const std::string &k, const std::string &def = "") const {
    auto it = kv.find(k);
    return it == kv.end() ? def : it->second;
  }
  long long n(const std::string &k, long long def = 0) const {
    auto it = kv.find(k);
    return it == kv.end() ? def : atoll(it->second.c_str());
  }
};
} // namespace vh
