// Offline ownership monitor over the hook event log (C14 (b)); also yields the final-state facts C04 uses.
// State-change events are emitted inside the code's own locked region, so replaying them in log order gives
// the exact control state every other event happened in (the log is a true total order under E-SCHED).
#pragma once
#include "sched.hpp"
#include "wencry_verif_hooks.h"
#include <string>
#include <vector>

namespace mon {
enum { S_EMPTY = 0, S_UPDATING = 1, S_READY = 2, S_INV = 3 };
inline const char *sn(int s) {
  static const char *n[] = {"EMPTY", "UPDATING", "READY", "INV"};
  return s >= 0 && s < 4 ? n[s] : "?";
}
struct Finding { std::string rule, detail; };
struct Report {
  std::vector<Finding> findings;
  long events = 0, handouts = 0, transforms = 0, loads = 0, exports = 0, transitions = 0, windows = 0, groups = 0;
  long looks_before_first_ready = 0; // a worker's look at its buffer preceded the first READY (the D3 window)
  long trans[4][4] = {{0}};
  bool all_inv_at_exit = true;
  bool haslive_at_teardown = false;
  bool stale_setup = false;
  long kind_count[WV_KIND_MAX + 1] = {0};
};

struct Buf {
  int state = S_EMPTY;
  long total = 0, handed = 0, transformed = 0;
  bool exported = true, in_io = false, ever_ready = false, has_chunk = false;
  int worker_thread = -1;
  long chunk_index = -1;
};

inline Report run(const std::vector<vsched::Event> &log) {
  Report R;
  long bufbase = 0, bufsz = 0, ctrlbase = 0, ctrlsz = 0;
  int T = 0, io_thread = -1;
  long chunk_counter = 0;
  std::vector<Buf> B;
  auto add = [&](const std::string &rule, const vsched::Event &e, const std::string &extra) {
    if (R.findings.size() < 12)
      R.findings.push_back({rule, "event#" + std::to_string(&e - &log[0]) + " kind=" + std::to_string(e.kind) + " id=" + std::to_string(e.id) +
                                      " thread=" + std::to_string(e.thread) + " step=" + std::to_string(e.step) + " " + extra});
  };
  auto bidx = [&](long p) -> int {
    if (!bufsz || p < bufbase) return -1;
    long i = (p - bufbase) / bufsz;
    return i < T ? (int)i : -1;
  };
  auto cidx = [&](long p) -> int {
    if (!ctrlsz || p < ctrlbase) return -1;
    long i = (p - ctrlbase) / ctrlsz;
    return i < T ? (int)i : -1;
  };
  for (const vsched::Event &e : log) {
    R.events++;
    if (e.kind > 0 && e.kind < WV_KIND_MAX) R.kind_count[e.kind]++;
    switch (e.kind) {
    case WV_SETUP_BUF:
      T = e.id; bufbase = e.a; bufsz = e.b;
      B.assign(T, Buf());
      chunk_counter = 0;
      io_thread = e.thread;
      R.groups++;
      break;
    case WV_SETUP_CTRL: ctrlbase = e.a; ctrlsz = e.b; break;
    case WV_SETUP_STATE:
      if (e.a != 0 || e.b != 0) { R.stale_setup = true; add("stale-group-state", e, "turn=" + std::to_string(e.a) + " over=" + std::to_string(e.b)); }
      break;
    case WV_TEARDOWN:
      if (e.b) { R.haslive_at_teardown = true; add("live-buffers-at-teardown", e, ""); }
      break;
    case WV_LOAD_BEGIN: {
      int i = bidx(e.a);
      if (i < 0) { add("event-outside-any-buffer", e, ""); break; }
      Buf &b = B[i];
      if (e.thread != io_thread) add("load-by-non-io-thread", e, "");
      if (b.state != S_EMPTY && b.state != S_UPDATING) add("io-load-while-worker-owns", e, std::string("state=") + sn(b.state));
      if (b.has_chunk && !b.exported) add("chunk-overwritten-before-export", e, "buffer=" + std::to_string(i));
      b.in_io = true;
      break;
    }
    case WV_LOAD_END: {
      int i = bidx(e.a);
      if (i < 0) break;
      Buf &b = B[i];
      b.in_io = false;
      R.loads++;
      b.total = e.b; b.handed = 0; b.transformed = 0;
      b.has_chunk = e.b > 0;
      if (b.has_chunk) {
        b.exported = false;
        b.chunk_index = chunk_counter++;
        if (b.chunk_index % T != i) add("chunk-to-wrong-worker", e, "chunk=" + std::to_string(b.chunk_index) + " buffer=" + std::to_string(i) + " T=" + std::to_string(T));
      }
      break;
    }
    case WV_EXPORT_BEGIN: {
      int i = bidx(e.a);
      if (i < 0) { add("event-outside-any-buffer", e, ""); break; }
      Buf &b = B[i];
      if (e.thread != io_thread) add("export-by-non-io-thread", e, "");
      if (b.state != S_UPDATING) add("io-export-while-worker-owns", e, std::string("state=") + sn(b.state));
      if (b.transformed != b.total) add("export-before-all-blocks-transformed", e, "transformed=" + std::to_string(b.transformed) + " total=" + std::to_string(b.total));
      b.in_io = true;
      break;
    }
    case WV_EXPORT_END: {
      int i = bidx(e.a);
      if (i < 0) break;
      B[i].in_io = false;
      B[i].exported = true;
      R.exports++;
      break;
    }
    case WV_SET_READY: {
      int i = cidx(e.a);
      if (i < 0) { add("event-outside-any-ctrl", e, ""); break; }
      Buf &b = B[i];
      if (e.thread != io_thread) add("set_ready-by-non-io-thread", e, "");
      if (b.state != S_EMPTY && b.state != S_UPDATING) add("io-state-change-while-worker-owns", e, std::string("from=") + sn(b.state) + " to=" + sn(e.id));
      if (e.id != S_READY && e.id != S_INV) add("illegal-transition", e, std::string("to=") + sn(e.id));
      if (b.state >= 0 && b.state < 4 && e.id >= 0 && e.id < 4) R.trans[b.state][e.id]++;
      R.transitions++;
      if (e.id == S_READY) { b.ever_ready = true; R.windows++; }
      b.state = e.id;
      break;
    }
    case WV_SET_UPDATE: {
      int i = cidx(e.a);
      if (i < 0) { add("event-outside-any-ctrl", e, ""); break; }
      Buf &b = B[i];
      if (b.state == S_READY) {
        if (e.id != S_UPDATING) add("illegal-transition", e, std::string("READY->") + sn(e.id));
        if (b.worker_thread >= 0 && e.thread != b.worker_thread) add("hand-back-by-foreign-thread", e, "");
        if (e.thread == io_thread) add("hand-back-by-io-thread", e, "");
        R.trans[S_READY][e.id & 3]++;
        R.transitions++;
        b.state = e.id;
      } else if (e.id != b.state)
        add("illegal-transition", e, std::string(sn(b.state)) + "->" + sn(e.id) + " in set_update");
      break;
    }
    case WV_WAIT_READY_END: {
      int i = cidx(e.a);
      if (i < 0) break;
      if (e.id != B[i].state) add("wait-saw-state-differing-from-shadow", e, std::string(sn(e.id)) + " vs " + sn(B[i].state));
      if (e.id != S_READY && e.id != S_INV) add("wait_ready-returned-in-wrong-state", e, sn(e.id));
      break;
    }
    case WV_WAIT_UPDATE_END: {
      int i = cidx(e.a);
      if (i < 0) break;
      if (e.id != B[i].state) add("wait-saw-state-differing-from-shadow", e, std::string(sn(e.id)) + " vs " + sn(B[i].state));
      if (e.id != S_UPDATING && e.id != S_EMPTY) add("wait_update-returned-in-wrong-state", e, sn(e.id));
      break;
    }
    case WV_GET_FIRST:
    case WV_GET_AFTER_WAIT: {
      int i = bidx(e.a);
      if (i < 0) { add("event-outside-any-buffer", e, ""); break; }
      Buf &b = B[i];
      if (i != e.id) add("worker-looks-at-foreign-buffer", e, "buffer=" + std::to_string(i));
      if (b.worker_thread < 0) b.worker_thread = e.thread;
      else if (b.worker_thread != e.thread) add("two-threads-work-one-buffer", e, "");
      if (e.thread == io_thread) add("io-thread-acts-as-worker", e, "");
      if (!b.ever_ready) R.looks_before_first_ready++;
      if (b.state != S_READY) add("worker-look-outside-window", e, std::string("state=") + sn(b.state) + (e.b ? " (block handed out)" : " (no block)"));
      if (b.in_io) add("worker-look-during-io", e, "");
      if (e.b) {
        long k = (e.b - e.a) / 16;
        R.handouts++;
        if (k != b.handed) add("hand-out-not-in-file-order", e, "block=" + std::to_string(k) + " expected=" + std::to_string(b.handed));
        if (k >= b.total) add("hand-out-beyond-loaded-data", e, "block=" + std::to_string(k) + " total=" + std::to_string(b.total));
        b.handed++;
      }
      break;
    }
    case WV_RUNCRY_BEGIN: {
      int i = bidx(e.a);
      if (i < 0) { add("transform-outside-any-buffer", e, ""); break; }
      Buf &b = B[i];
      if (i != e.id) add("worker-transforms-foreign-buffer", e, "buffer=" + std::to_string(i));
      if (b.state != S_READY) add("transform-outside-window", e, std::string("state=") + sn(b.state));
      if (b.in_io) add("transform-during-io", e, "");
      long k = (e.a - (bufbase + (long)i * bufsz)) / 16;
      if (k != b.transformed) add("transform-not-in-file-order", e, "block=" + std::to_string(k) + " expected=" + std::to_string(b.transformed));
      break;
    }
    case WV_RUNCRY_END: {
      int i = bidx(e.a);
      if (i < 0) break;
      B[i].transformed++;
      R.transforms++;
      if (B[i].state != S_READY) add("transform-outside-window", e, std::string("state at end=") + sn(B[i].state));
      break;
    }
    case WV_IO_DONE:
      for (int i = 0; i < T; i++) {
        if (B[i].state != S_INV) { R.all_inv_at_exit = false; add("buffer-not-INV-when-io-thread-finished", e, "buffer=" + std::to_string(i) + " state=" + sn(B[i].state)); }
        if (B[i].has_chunk && !B[i].exported) add("chunk-never-exported", e, "buffer=" + std::to_string(i));
      }
      break;
    default: break;
    }
  }
  return R;
}
} // namespace mon
