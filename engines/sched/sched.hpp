#pragma once
#include <functional>
#include <map>
#include <stdint.h>
#include <string>
#include <vector>

namespace vsched {
enum Strategy { UNIFORM = 0, STICKY = 1, PCT = 2, STARVE = 3 };
struct Config {
  uint64_t seed = 1;
  int strategy = UNIFORM;
  int sticky_pct = 50;
  int spurious_pct = 0;
  int pct_depth = 2;
  uint64_t pct_horizon = 400;
  uint64_t step_bound = 300000;
  int cpu_bound_s = 20;
};
struct Event {
  int kind, id;
  long a, b;
  int thread;
  uint64_t step;
};
struct Stats {
  uint64_t steps, signature, choices;
  int threads;
};
typedef void (*FailFn)(const char *what, const char *detail);

void init(const Config &c, FailFn f);
void install_cpu_handler();
void finish();
const std::vector<Event> &events();
Stats stats();

// used by the forced-include shims
void mutex_lock(void *m);
void mutex_unlock(void *m);
void cv_wait(void *cv, void *m);
bool cv_wait_timed(void *cv, void *m);
bool mutex_try_lock(void *m);
void cv_notify(void *cv, bool all);
int thread_start(std::function<void()> fn);
void thread_join(int id);
void event(int kind, int id, long a, long b);
int self();
} // namespace vsched
