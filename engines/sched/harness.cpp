// E-SCHED harness: one forked child per schedule.  Compiled WITH the forced include (it embeds repo classes
// whose layout depends on the replaced thread type).
#include "../api/ops.hpp"
#include "monitor.hpp"
#include "sched.hpp"
#include "multicry.h"
#include <poll.h>
#include <sys/wait.h>

using vh::bytes;

namespace {
int g_pipe = -1;
void put(const std::string &s) {
  uint32_t n = (uint32_t)s.size();
  (void)!write(g_pipe, &n, 4);
  (void)!write(g_pipe, s.data(), n);
}
void failfn(const char *what, const char *detail) {
  // called with the scheduler lock held, from whichever thread detected it
  vh::J j;
  j.str("status", what).str("detail", detail);
  const std::vector<vsched::Event> &ev = vsched::events();
  std::string tail = "[";
  size_t from = ev.size() > 40 ? ev.size() - 40 : 0;
  for (size_t i = from; i < ev.size(); i++) {
    if (i > from) tail += ",";
    tail += "[" + std::to_string(ev[i].kind) + "," + std::to_string(ev[i].id) + "," + std::to_string(ev[i].thread) + "," + std::to_string(ev[i].b) + "]";
  }
  tail += "]";
  vsched::Stats st = vsched::stats();
  j.raw("last_events_kind_id_thread_b", tail).num("steps", (long long)st.steps).str("sig", std::to_string(st.signature)).num("nevents", (long long)ev.size());
  // the ownership monitor also judges the part of the run that did happen (a run that never terminates may have
  // mis-assigned chunks before it got stuck)
  mon::Report R = mon::run(ev);
  std::string mv = "[";
  for (size_t i = 0; i < R.findings.size(); i++) {
    vh::J v;
    v.str("rule", R.findings[i].rule).str("detail", R.findings[i].detail);
    mv += (i ? "," : "") + v.done();
  }
  mv += "]";
  j.raw("monitor_findings", mv);
  put(j.done());
}

// ---- tagging cipher streams ------------------------------------------------------------------------
struct TagRec { int stream, thread; long id; };
std::vector<TagRec> g_taglog;
std::vector<std::string> g_tagviol;
struct TagStream : public Aesmode {
  int stream;
  long seq = 0;
  static const uint8_t *zero() { static uint8_t z[16] = {0}; return z; }
  TagStream(int s) : Aesmode(zero()), stream(s) {}
  void runcry(u8_t *block) override {
    long id = -1;
    bool pad = true;
    for (int i = 0; i < 16; i++) pad = pad && block[i] == 0x10;
    if (block[0] == 'P') memcpy(&id, block + 1, 8);
    else if (pad) id = -2;
    else if (block[0] == 'X') { g_tagviol.push_back("block-transformed-twice"); memcpy(&id, block + 1, 8); }
    else g_tagviol.push_back("block-with-unexpected-content-reached-a-stream");
    g_taglog.push_back({stream, vsched::self(), id});
    memset(block, 0, 16);
    block[0] = 'X';
    memcpy(block + 1, &id, 8);
    block[9] = (uint8_t)stream;
    uint32_t s32 = (uint32_t)seq++;
    memcpy(block + 10, &s32, 4);
    block[15] = 0x10;
  }
};

struct Case {
  int kind; // 0 real-enc, 1 real-dec, 2 real-verify, 3 tag-enc, 4 tag-dec, 5 forged-dec (valid tag, arbitrary body length)
  size_t n;
  int T, cmode, hmode;
  vsched::Config sc;
  uint64_t dataseed;
  bool echo = false;
  int hint = 0;
};
const char *KIND[] = {"real-enc", "real-dec", "real-verify", "tag-enc", "tag-dec", "forged-dec", "enc-eio", "dec-eio", "enc-enospc", "dec-enospc", "enc-then-dec"};
const char *STRAT[] = {"uniform", "sticky", "pct", "starve"};

std::string case_json(const Case &c, long long idx) {
  vh::J j;
  j.num("idx", idx).str("kind", KIND[c.kind]).num("n", (long long)c.n).num("T", c.T).num("cmode", c.cmode).num("hmode", c.hmode).num("chunk", (long long)VH_CHUNK).num("echo", c.echo).num("size_arg", c.hint);
  j.str("strategy", STRAT[c.sc.strategy]).num("sticky", c.sc.sticky_pct).num("spurious", c.sc.spurious_pct).num("pct_depth", c.sc.pct_depth);
  j.str("sched_seed", std::to_string(c.sc.seed)).str("data_seed", std::to_string(c.dataseed));
  return j.done();
}

Case make_case(uint64_t seed, long long idx, const std::string &grid, bool thorough) {
  vh::Rng r(vh::mix(vh::mix(seed, (uint64_t)idx), 0x5C4ED));
  Case c;
  const size_t ch = VH_CHUNK;
  static const int Ts[] = {1, 2, 3, 4, 8};
  if (grid == "term") { // termination grid: lengths around 0, c, 2c; T 1..16; all entry points
    c.T = 1 + (int)r.below(16);
    size_t base = ch * r.below(3);
    long off = (long)r.below(19) - 17;
    long nn = (long)base + off;
    c.n = nn < 0 ? (size_t)r.below(3) : (size_t)nn;
    c.kind = (int)r.below(10);
  } else {
    c.T = Ts[r.below(5)];
    size_t chunks = r.below(7);
    if (r.chance(6)) { c.T = 13 + (int)r.below(4); chunks = (size_t)c.T - 2 + r.below(5); } // every worker of a large T gets a chunk
    switch ((int)r.below(4)) {
    case 0: c.n = chunks * ch; break;                                  // exact multiple
    case 1: c.n = chunks * ch + (ch > 16 ? 16 * r.below(ch / 16) : 0); break; // block aligned
    case 2: c.n = chunks * ch + ch - 1 - r.below(16); break;          // padded length == multiple of chunk
    default: c.n = chunks * ch + r.below(ch); break;
    }
    int k = (int)r.below(11);
    c.kind = k < 3 ? 0 : k < 6 ? 1 : k < 8 ? 3 : k < 10 ? 4 : 10;
  }
  if (c.kind == 3 || c.kind == 4) c.n = (c.n / 16) * 16; // tagging streams work on whole blocks
  if (c.kind == 4 && c.n == 0) c.n = 16;   // an empty body is outside the domain of decryption
  c.cmode = (int)r.below(5);
  c.hmode = (int)r.below(3);
  c.dataseed = r.next();
  c.sc.seed = r.next();
  int s = (int)r.below(8);
  c.sc.strategy = s < 2 ? vsched::UNIFORM : s < 5 ? vsched::STICKY : s < 7 ? vsched::PCT : vsched::STARVE;
  static const int st[] = {0, 50, 90};
  c.sc.sticky_pct = c.sc.strategy == vsched::UNIFORM ? 0 : st[r.below(3)];
  c.sc.spurious_pct = r.chance(35) ? 5 + (int)r.below(25) : 0;
  c.sc.pct_depth = 1 + (int)r.below(3);
  c.sc.pct_horizon = 50 + 40 * (c.n / 16 + c.T);
  c.sc.step_bound = thorough ? 2000000 : 400000;
  c.sc.cpu_bound_s = 4;
  c.echo = r.chance(25);
  c.hint = r.chance(30) ? 1 + (int)r.below(2) : 0;
  return c;
}

// executed in the child, under the scheduler.  Returns JSON with status + oracle findings.
std::string run_case(const Case &c) {
  const size_t ch = VH_CHUNK;
  std::vector<std::pair<std::string, std::string>> out_viol; // (key suffix, detail)
  vh::Rng r(c.dataseed);
  uint8_t key[16];
  r.fill(key, 16);
  bytes seed = ops::gen_seed(r);
  bytes P = r.bytes_(c.n);
  ops::force_echo() = c.echo;
  ops::size_hint_mode() = c.hint;
  vsched::init(c.sc, failfn);
  vsched::install_cpu_handler();
  bool ret = true;
  if (c.kind == 10) {
    // two pipeline runs in ONE process under the scheduler (the second meets whatever the first left in statics)
    ops::EncParams ep;
    ep.cmode = c.cmode; ep.hmode = c.hmode; ep.T = c.T;
    memcpy(ep.key, key, 16);
    ep.seed = seed;
    bytes F = ref::wenc_reference(P, key, c.cmode, c.hmode, seed.data(), seed.size(), c.T, ch);
    ops::Result e = ops::encrypt(P, ep);
    if (!e.ret) out_viol.push_back({"encrypt-returned-false", ""});
    else if (e.out != F) out_viol.push_back({"enc-output-bytes-differ", ""});
    ops::Result d = ops::decrypt(F, key, c.T);
    vsched::finish();
    ret = d.ret;
    if (!d.ret) out_viol.push_back({"second-operation|decrypt-returned-false", ""});
    else if (d.out != P) out_viol.push_back({"second-operation|dec-output-differs", ""});
  } else if (c.kind == 8 || c.kind == 9) {
    // the OUTPUT stream starts failing with ENOSPC at its k-th write (disk full, unbuffered so that the error surfaces
    // while other chunks are still in flight): failure is the right result, but the operation must return
    ops::EncParams ep;
    ep.cmode = c.cmode; ep.hmode = c.hmode; ep.T = c.T;
    memcpy(ep.key, key, 16);
    ep.seed = seed;
    size_t k = 1 + (size_t)(c.dataseed % 9);
    if (c.kind == 8) ret = ops::encrypt(P, ep, 0, false, 0, k + 4).ret; // header writes come first
    else {
      bytes F = ref::wenc_reference(P, key, c.cmode, c.hmode, seed.data(), seed.size(), c.T, ch);
      ret = ops::decrypt_or_verify(true, F, key, c.T, false, 0, 0, k).ret;
    }
    vsched::finish();
  } else if (c.kind == 6 || c.kind == 7) {
    // the input stream starts failing with EIO at its k-th read call (dead disk): any result is acceptable, but the
    // operation must return
    ops::EncParams ep;
    ep.cmode = c.cmode; ep.hmode = c.hmode; ep.T = c.T;
    memcpy(ep.key, key, 16);
    ep.seed = seed;
    size_t k = 1 + (size_t)(c.dataseed % 12);
    if (c.kind == 6) ret = ops::encrypt(P, ep, -1, false, k).ret;
    else {
      bytes F = ref::wenc_reference(P, key, c.cmode, c.hmode, seed.data(), seed.size(), c.T, ch);
      ret = ops::decrypt_or_verify(true, F, key, c.T, false, -1, k).ret;
    }
    vsched::finish();
  } else if (c.kind == 5) {
    // a key holder re-tagged arbitrary bytes: decrypt may accept or reject, but it must return
    size_t L = 48 + 20 * (size_t)c.T + c.n;
    if (L < 74) L = 74;
    bytes F = r.bytes_(L);
    memcpy(F.data(), ref::MAGIC, 8);
    F[8] = (uint8_t)c.cmode; F[9] = (uint8_t)c.hmode;
    memset(F.data() + 10, 0, 38);
    bytes tag = ref::hmac(c.hmode, key, 16, F.data() + 48, L - 48);
    memcpy(F.data() + 10, tag.data(), tag.size());
    ops::Result d = ops::decrypt(F, key, c.T);
    vsched::finish();
    ret = d.ret;
  } else if (c.kind <= 2) {
    ops::EncParams ep;
    ep.cmode = c.cmode; ep.hmode = c.hmode; ep.T = c.T;
    memcpy(ep.key, key, 16);
    ep.seed = seed;
    bytes F = ref::wenc_reference(P, key, c.cmode, c.hmode, seed.data(), seed.size(), c.T, ch);
    if (c.kind == 0) {
      ops::Result e = ops::encrypt(P, ep);
      vsched::finish();
      ret = e.ret;
      if (!e.ret) out_viol.push_back({"encrypt-returned-false", ""});
      else if (e.out != F) {
        size_t k = 0;
        while (k < e.out.size() && k < F.size() && e.out[k] == F[k]) k++;
        vh::J j;
        j.num("first_diff", (long long)k).num("got_len", (long long)e.out.size()).num("want_len", (long long)F.size());
        if (k >= 48 + 20 * (size_t)c.T) j.num("chunk", (long long)((k - 48 - 20 * c.T) / ch));
        out_viol.push_back({e.out.size() != F.size() ? "enc-output-length-differs" : "enc-output-bytes-differ", j.done()});
      }
    } else if (c.kind == 1) {
      ops::Result d = ops::decrypt(F, key, c.T);
      vsched::finish();
      ret = d.ret;
      if (!d.ret) out_viol.push_back({"decrypt-returned-false", ""});
      else if (d.out != P) {
        size_t k = 0;
        while (k < d.out.size() && k < P.size() && d.out[k] == P[k]) k++;
        vh::J j;
        j.num("first_diff", (long long)k).num("got_len", (long long)d.out.size()).num("want_len", (long long)P.size()).num("chunk", (long long)(k / ch));
        out_viol.push_back({d.out.size() != P.size() ? "dec-output-length-differs" : "dec-output-bytes-differ", j.done()});
      }
    } else {
      ops::Result v = ops::verify(F, key, c.T);
      vsched::finish();
      if (!v.ret) out_viol.push_back({"verify-returned-false", ""});
    }
  } else {
    // tagging streams through the public pipeline API
    bool padmode = c.kind == 3;
    size_t N = c.n / 16;
    bytes in(c.n);
    for (size_t i = 0; i < N; i++) {
      in[16 * i] = 'P';
      long id = (long)i;
      memcpy(&in[16 * i + 1], &id, 8);
      in[16 * i + 15] = 0x21;
    }
    vh::MemFile mi, mo;
    mi.data = in;
    FILE *fi = mi.open("r+"), *fo = mo.open("w+");
    buffergroup *bg = buffergroup::get_instance();
    bg->set_buffergroup((u32_t)c.T, fi, fo, padmode);
    Aesmode **modes = new Aesmode *[c.T];
    for (int i = 0; i < c.T; i++) modes[i] = new TagStream(i);
    {
      multicry_master m((u8_t)c.T);
      m.run_multicry(modes, [](std::string, size_t) {});
    }
    buffergroup::del_instance();
    vsched::finish();
    fclose(fi);
    fclose(fo);
    // offline exactly-once checker
    size_t units = ch / 16;
    size_t outblocks = padmode ? N + 1 : N - 1; // enc: + transformed pad block; dec: last block is stripped as padding
    for (auto &v : g_tagviol) out_viol.push_back({"tag|" + v, ""});
    if (mo.data.size() != 16 * outblocks) {
      vh::J j;
      j.num("got_len", (long long)mo.data.size()).num("want_len", (long long)(16 * outblocks));
      out_viol.push_back({"tag|output-length-differs", j.done()});
    }
    std::vector<long> seqs(c.T, 0);
    size_t total_tx = padmode ? N + 1 : N;
    for (size_t jx = 0; jx < total_tx; jx++) {
      int owner = (int)((jx / units) % c.T);
      long expseq = seqs[owner]++;
      if (jx >= outblocks || 16 * jx + 16 > mo.data.size()) continue;
      const uint8_t *b = &mo.data[16 * jx];
      long id;
      uint32_t s32;
      memcpy(&id, b + 1, 8);
      memcpy(&s32, b + 10, 4);
      long wantid = (padmode && jx == N) ? -2 : (long)jx;
      vh::J j;
      j.num("block", (long long)jx).num("got_id", id).num("want_id", wantid).num("got_stream", b[9]).num("want_stream", owner).num("got_seq", s32).num("want_seq", expseq);
      if (b[0] != 'X') { out_viol.push_back({"tag|block-exported-untransformed", j.done()}); break; }
      if (id != wantid) { out_viol.push_back({"tag|block-at-wrong-offset", j.done()}); break; }
      if (b[9] != owner) { out_viol.push_back({"tag|block-transformed-by-wrong-stream", j.done()}); break; }
      if ((long)s32 != expseq) { out_viol.push_back({"tag|stream-order-differs", j.done()}); break; }
    }
    // log: every id exactly once, each stream from one thread, ids increasing per stream
    std::map<long, int> cnt;
    std::map<int, int> sthread;
    std::map<int, long> last;
    for (auto &t : g_taglog) {
      cnt[t.id]++;
      if (!sthread.count(t.stream)) sthread[t.stream] = t.thread;
      else if (sthread[t.stream] != t.thread) { out_viol.push_back({"tag|stream-used-by-two-threads", ""}); break; }
      if (t.id >= 0) {
        if (last.count(t.stream) && last[t.stream] >= t.id) { out_viol.push_back({"tag|stream-saw-blocks-out-of-order", ""}); break; }
        last[t.stream] = t.id;
      }
    }
    for (size_t i = 0; i < N; i++)
      if (cnt[(long)i] != 1) {
        vh::J j;
        j.num("block", (long long)i).num("times", cnt[(long)i]);
        out_viol.push_back({cnt[(long)i] == 0 ? "tag|block-never-transformed" : "tag|block-transformed-twice", j.done()});
        break;
      }
  }
  // monitors over the event log
  mon::Report R = mon::run(vsched::events());
  vsched::Stats st = vsched::stats();
  vh::J j;
  j.str("status", "ok").boolean("ret", ret).num("steps", (long long)st.steps).str("sig", std::to_string(st.signature)).num("choices", (long long)st.choices);
  j.num("events", R.events).num("handouts", R.handouts).num("transforms", R.transforms).num("loads", R.loads).num("exports", R.exports);
  j.num("transitions", R.transitions).num("windows", R.windows).num("groups", R.groups).num("looks_before_first_ready", R.looks_before_first_ready);
  j.boolean("all_inv_at_exit", R.all_inv_at_exit).boolean("haslive_at_teardown", R.haslive_at_teardown).boolean("haslive_now", bufferctrl::haslive());
  std::string kc = "[";
  for (int k = 0; k < WV_KIND_MAX; k++) kc += (k ? "," : "") + std::to_string(R.kind_count[k]);
  kc += "]";
  j.raw("kind_count", kc);
  std::string tr = "[";
  for (int a = 0; a < 4; a++)
    for (int b = 0; b < 4; b++) tr += ((a || b) ? "," : "") + std::to_string(R.trans[a][b]);
  tr += "]";
  j.raw("trans", tr);
  std::string ov = "[";
  for (size_t i = 0; i < out_viol.size(); i++) {
    vh::J v;
    v.str("rule", out_viol[i].first).raw("detail", out_viol[i].second.empty() ? "{}" : out_viol[i].second);
    ov += (i ? "," : "") + v.done();
  }
  ov += "]";
  j.raw("output_findings", ov);
  std::string mv = "[";
  for (size_t i = 0; i < R.findings.size(); i++) {
    vh::J v;
    v.str("rule", R.findings[i].rule).str("detail", R.findings[i].detail);
    mv += (i ? "," : "") + v.done();
  }
  mv += "]";
  j.raw("monitor_findings", mv);
  return j.done();
}
} // namespace

// Output protocol (stdout of this process is not used): for every case one line in <out>.results.jsonl:
//   {"case":{...}, "result":{...}}   where result.status in ok / deadlock / step-bound-exceeded / cpu-bound-exceeded /
//   signal:N / exit:N / watchdog
int main(int argc, char **argv) {
  vh::Args a(argc, argv);
  uint64_t seed = (uint64_t)a.n("seed", 1);
  long long shard = a.n("shard", 0), nshards = a.n("nshards", 1), count = a.n("count", 100), only = a.n("only", -1);
  bool thorough = a.s("tier", "quick") == "thorough";
  std::string grid = a.s("grid", "mix");
  std::string outp = a.s("out", "/dev/null") + ".results.jsonl";
  if (ref::selftest() != 0) { fprintf(stderr, "harness: reference self-test failed\n"); return 2; }
  FILE *res = fopen(outp.c_str(), "w");
  if (!res) { perror("harness: results"); return 2; }
  if (!freopen("/dev/null", "w", stdout)) return 2;
  int abnormal = 0;
  for (long long idx = 0; idx < count; idx++) {
    if (only >= 0 ? idx != only : (idx % nshards) != shard) continue;
    Case c = make_case(seed, idx, grid, thorough);
    int fd[2];
    if (pipe(fd)) { perror("pipe"); return 2; }
    fflush(nullptr);
    pid_t pid = fork();
    if (pid < 0) { perror("fork"); return 2; }
    if (pid == 0) {
      close(fd[0]);
      g_pipe = fd[1];
      fclose(res);
      std::string r = run_case(c);
      put(r);
      _exit(0);
    }
    close(fd[1]);
    std::string result;
    struct pollfd pf = {fd[0], POLLIN, 0};
    int pr = poll(&pf, 1, 120000); // generous wall-clock watchdog: its firing is inconclusive, never a verdict
    bool watchdog = pr == 0;
    if (!watchdog) {
      uint32_t n = 0;
      if (read(fd[0], &n, 4) == 4 && n < (1u << 24)) {
        result.resize(n);
        size_t got = 0;
        while (got < n) {
          ssize_t k = read(fd[0], &result[got], n - got);
          if (k <= 0) break;
          got += (size_t)k;
        }
        result.resize(got);
      }
    } else
      kill(pid, SIGKILL);
    close(fd[0]);
    int st = 0;
    waitpid(pid, &st, 0);
    if (watchdog) result = "{\"status\":\"watchdog\"}";
    else if (result.empty()) {
      if (WIFSIGNALED(st)) result = "{\"status\":\"signal:" + std::to_string(WTERMSIG(st)) + "\"}";
      else result = "{\"status\":\"exit:" + std::to_string(WEXITSTATUS(st)) + "\"}";
    }
    fprintf(res, "{\"case\":%s,\"result\":%s}\n", case_json(c, idx).c_str(), result.c_str());
    if (result.find("\"status\":\"ok\"") == std::string::npos && ++abnormal >= 12) {
      // enough witnesses: a tree that fails everywhere must not cost hours (each hang witness burns its CPU bound)
      fprintf(res, "{\"aborted_early\":true,\"at_idx\":%lld}\n", idx);
      break;
    }
  }
  fclose(res);
  return 0;
}
