// E-SCHED core: a seeded cooperative scheduler.  Every thread of the program under test is a real pthread,
// but exactly one holds the baton at any time; at every lock / unlock / wait / notify / spawn / exit / join and
// at every hook event the baton holder asks the scheduler who runs next.  Mutex, condition-variable and join
// semantics are modelled exactly: a notify moves only the threads waiting at that moment; the only invented
// wake-ups are the explicitly enabled spurious ones (legal for condition variables).
// Compiled WITHOUT the forced include (file name prefix nofi_).
#include "sched.hpp"
#include <condition_variable>
#include <mutex>
#include <thread>
#include <signal.h>
#include <sys/time.h>
#include <unistd.h>

namespace vsched {
namespace {
enum St { RUN, BLK_MUTEX, BLK_CV, BLK_JOIN, DONE, BLK_CV_TIMED };
struct Th {
  int id;
  St st = RUN;
  void *on = nullptr;
  int join_target = -1;
  std::condition_variable cv;
  std::thread real;
  std::function<void()> fn;
  int prio = 0;
  bool timed_out = false;
};
struct MutexState { bool locked = false; int owner = -1; };

std::mutex G; // protects everything below; real threads hand the baton over under it
std::vector<Th *> ths;
std::map<void *, MutexState> mtx;
int cur = 0;
bool active = false;
Config cfg;
uint64_t rng_s;
uint64_t steps = 0, sig = 1469598103934665603ull, choices = 0;
int starve_victim = -1;
std::vector<uint64_t> pct_points;
std::vector<Event> evlog;
FailFn on_fail = nullptr;
thread_local int my_id = 0;

uint64_t rnd() {
  uint64_t z = (rng_s += 0x9E3779B97F4A7C15ull);
  z = (z ^ (z >> 30)) * 0xBF58476D1CE4E5B9ull;
  z = (z ^ (z >> 27)) * 0x94D049BB133111EBull;
  return z ^ (z >> 31);
}

[[noreturn]] void fail(const char *what) {
  // G is held by the caller
  std::string detail = std::string(what) + ";steps=" + std::to_string(steps) + ";threads=";
  for (Th *t : ths) {
    const char *sn[] = {"RUN", "BLK_MUTEX", "BLK_CV", "BLK_JOIN", "DONE", "BLK_CV_TIMED"};
    detail += std::to_string(t->id) + ":" + sn[t->st] + " ";
  }
  if (on_fail) on_fail(what, detail.c_str());
  _exit(42);
}

// choose the next baton holder among enabled threads; `me_enabled` says whether the caller may continue
int choose(int me, bool me_enabled) {
  std::vector<int> en;
  for (Th *t : ths)
    if (t->st == RUN && (t->id != me || me_enabled)) en.push_back(t->id);
  // spurious wake-up: a thread waiting on a condition variable may be woken without notify
  if (cfg.spurious_pct > 0 && (int)(rnd() % 100) < cfg.spurious_pct) {
    std::vector<int> w;
    for (Th *t : ths)
      if (t->st == BLK_CV) w.push_back(t->id);
    if (!w.empty()) {
      int v = w[rnd() % w.size()];
      ths[v]->st = RUN;
      en.push_back(v);
    }
  }
  {
    // a thread in a TIMED wait can always continue (its timeout may expire at any moment: time is not modelled)
    std::vector<int> tw;
    for (Th *t : ths)
      if (t->st == BLK_CV_TIMED) tw.push_back(t->id);
    if (!tw.empty() && (en.empty() || (int)(rnd() % 100) < 20)) {
      int v = tw[rnd() % tw.size()];
      ths[v]->st = RUN;
      ths[v]->timed_out = true;
      en.push_back(v);
    }
  }
  if (en.empty()) return -1;
  steps++;
  if (steps > cfg.step_bound) fail("step-bound-exceeded");
  int pick;
  if (en.size() == 1) pick = en[0];
  else {
    choices++;
    switch (cfg.strategy) {
    case STICKY: {
      bool stay = me_enabled && ths[me]->st == RUN && (int)(rnd() % 100) < cfg.sticky_pct;
      pick = stay ? me : en[rnd() % en.size()];
      break;
    }
    case PCT: {
      for (uint64_t p : pct_points)
        if (p == steps && me >= 0) ths[me]->prio = -(int)steps; // demote the running thread at a change point
      pick = en[0];
      for (int id : en)
        if (ths[id]->prio > ths[pick]->prio) pick = id;
      break;
    }
    case STARVE: {
      std::vector<int> others;
      for (int id : en)
        if (id != starve_victim) others.push_back(id);
      if (others.empty()) pick = en[rnd() % en.size()];
      else {
        bool stay = me_enabled && me != starve_victim && ths[me]->st == RUN && (int)(rnd() % 100) < cfg.sticky_pct;
        pick = stay ? me : others[rnd() % others.size()];
      }
      break;
    }
    default: pick = en[rnd() % en.size()];
    }
    sig = (sig ^ (uint64_t)(pick + 1)) * 1099511628211ull;
  }
  return pick;
}

// hand the baton to `next` and sleep until it comes back (G held via lk)
void transfer(std::unique_lock<std::mutex> &lk, int me, int next) {
  if (next == me) return;
  cur = next;
  ths[next]->cv.notify_one();
  ths[me]->cv.wait(lk, [&] { return cur == me; });
}

void sched_point_locked(std::unique_lock<std::mutex> &lk) {
  int me = my_id;
  int next = choose(me, true);
  if (next < 0) fail("deadlock"); // cannot happen: me is enabled
  transfer(lk, me, next);
}

// caller is blocked (its st != RUN): somebody else must run
void switch_away(std::unique_lock<std::mutex> &lk) {
  int me = my_id;
  while (ths[me]->st != RUN) {
    int next = choose(me, false);
    if (next < 0) fail("deadlock");
    if (next == me) break; // spuriously woken
    transfer(lk, me, next);
  }
}
} // namespace

void init(const Config &c, FailFn f) {
  std::unique_lock<std::mutex> lk(G);
  cfg = c;
  on_fail = f;
  rng_s = c.seed * 0x9E3779B97F4A7C15ull + 0x1234567;
  for (int i = 0; i < 4; i++) rnd();
  ths.clear();
  Th *m = new Th;
  m->id = 0;
  ths.push_back(m);
  my_id = 0;
  cur = 0;
  active = true;
  steps = 0;
  choices = 0;
  starve_victim = -1;
  pct_points.clear();
  if (c.strategy == PCT)
    for (int i = 0; i < c.pct_depth; i++) pct_points.push_back(1 + rnd() % (c.pct_horizon ? c.pct_horizon : 400));
  m->prio = (int)(rnd() % 1000);
  // CPU-time (not wall-clock) bound: a loop without any synchronisation never reaches a scheduling point
  struct itimerval it = {{0, 0}, {(time_t)c.cpu_bound_s, 0}};
  setitimer(ITIMER_PROF, &it, nullptr);
}

void on_cpu_bound(int) {
  if (on_fail) on_fail("cpu-bound-exceeded", "no scheduling point reached within the CPU-time bound");
  _exit(44);
}
void install_cpu_handler() { signal(SIGPROF, on_cpu_bound); }

void mutex_lock(void *m) {
  if (!active) return;
  std::unique_lock<std::mutex> lk(G);
  sched_point_locked(lk);
  int me = my_id;
  MutexState &s = mtx[m];
  while (s.locked) {
    if (s.owner == me) fail("relock-of-own-mutex");
    ths[me]->st = BLK_MUTEX;
    ths[me]->on = m;
    switch_away(lk);
  }
  s.locked = true;
  s.owner = me;
}
static void unlock_nosched(void *m) {
  MutexState &s = mtx[m];
  s.locked = false;
  s.owner = -1;
  for (Th *t : ths)
    if (t->st == BLK_MUTEX && t->on == m) t->st = RUN;
}
void mutex_unlock(void *m) {
  if (!active) return;
  std::unique_lock<std::mutex> lk(G);
  if (!mtx[m].locked || mtx[m].owner != my_id) fail("unlock-of-unowned-mutex");
  unlock_nosched(m);
  sched_point_locked(lk);
}
void cv_wait(void *cv, void *m) {
  if (!active) return;
  std::unique_lock<std::mutex> lk(G);
  int me = my_id;
  if (!mtx[m].locked || mtx[m].owner != me) fail("cv-wait-without-mutex");
  // the waiter may be preempted between evaluating its predicate and blocking; it still holds the mutex, so only a
  // notifier that does NOT take the mutex can slip in here (the classic lost wake-up window)
  sched_point_locked(lk);
  unlock_nosched(m);
  ths[me]->st = BLK_CV;
  ths[me]->on = cv;
  switch_away(lk);
  MutexState &s = mtx[m];
  while (s.locked) {
    ths[me]->st = BLK_MUTEX;
    ths[me]->on = m;
    switch_away(lk);
  }
  s.locked = true;
  s.owner = me;
}
bool cv_wait_timed(void *cv, void *m) {
  if (!active) return true;
  std::unique_lock<std::mutex> lk(G);
  int me = my_id;
  if (!mtx[m].locked || mtx[m].owner != me) fail("cv-wait-without-mutex");
  sched_point_locked(lk);
  unlock_nosched(m);
  ths[me]->st = BLK_CV_TIMED;
  ths[me]->on = cv;
  ths[me]->timed_out = false;
  switch_away(lk);
  bool notified = !ths[me]->timed_out;
  MutexState &s = mtx[m];
  while (s.locked) {
    ths[me]->st = BLK_MUTEX;
    ths[me]->on = m;
    switch_away(lk);
  }
  s.locked = true;
  s.owner = me;
  return notified;
}
bool mutex_try_lock(void *m) {
  if (!active) return true;
  std::unique_lock<std::mutex> lk(G);
  sched_point_locked(lk);
  MutexState &s = mtx[m];
  if (s.locked) return false;
  s.locked = true;
  s.owner = my_id;
  return true;
}
void cv_notify(void *cv, bool all) {
  if (!active) return;
  std::unique_lock<std::mutex> lk(G);
  std::vector<Th *> w;
  for (Th *t : ths)
    if ((t->st == BLK_CV || t->st == BLK_CV_TIMED) && t->on == cv) w.push_back(t);
  if (all)
    for (Th *t : w) t->st = RUN;
  else if (!w.empty())
    w[rnd() % w.size()]->st = RUN;
  sched_point_locked(lk);
}
int thread_start(std::function<void()> fn) {
  std::unique_lock<std::mutex> lk(G);
  Th *t = new Th;
  t->id = (int)ths.size();
  t->fn = fn;
  t->prio = (int)(rnd() % 1000);
  ths.push_back(t);
  if (cfg.strategy == STARVE && starve_victim < 0 && (rnd() % 3) == 0) starve_victim = t->id;
  int id = t->id;
  t->real = std::thread([t, id] {
    {
      std::unique_lock<std::mutex> lk2(G);
      my_id = id;
      t->cv.wait(lk2, [&] { return cur == id; });
    }
    t->fn();
    std::unique_lock<std::mutex> lk2(G);
    t->st = DONE;
    for (Th *o : ths)
      if (o->st == BLK_JOIN && o->join_target == id) o->st = RUN;
    int next = choose(id, false);
    if (next < 0) fail("deadlock");
    cur = next;
    ths[next]->cv.notify_one();
  });
  if (active) sched_point_locked(lk);
  return id;
}
void thread_join(int id) {
  if (id < 0) return;
  {
    std::unique_lock<std::mutex> lk(G);
    int me = my_id;
    if (active) sched_point_locked(lk);
    while (ths[id]->st != DONE) {
      ths[me]->st = BLK_JOIN;
      ths[me]->join_target = id;
      switch_away(lk);
    }
  }
  ths[id]->real.join();
}
void starve(int thread_id) { starve_victim = thread_id; }

void event(int kind, int id, long a, long b) {
  if (!active) return;
  std::unique_lock<std::mutex> lk(G);
  Event e = {kind, id, a, b, my_id, steps};
  evlog.push_back(e);
  sched_point_locked(lk);
}
const std::vector<Event> &events() { return evlog; }
int self() { return my_id; }
Stats stats() {
  Stats s;
  s.steps = steps;
  s.signature = sig;
  s.choices = choices;
  s.threads = (int)ths.size();
  return s;
}
void finish() {
  std::unique_lock<std::mutex> lk(G);
  active = false;
  struct itimerval it = {{0, 0}, {0, 0}};
  setitimer(ITIMER_PROF, &it, nullptr);
}
} // namespace vsched

extern "C" void wencry_verif_event(int kind, int id, long a, long b) { vsched::event(kind, id, a, b); }
