#!/bin/bash
# usage: tools/vet_mutant.sh <seed-id> <worktree> "<props to run>"
# Confirms a seeded change (compiles, stable tests pass, demo fails with / passes without), then runs the checks.
ID="$1"; WT="$2"; PROPS="$3"
cd "$(dirname "$0")/.."
OUT=/tmp/vet_$ID; rm -rf $OUT; mkdir -p $OUT
echo "== patch"; git -C $WT diff -- kernel valget main.cpp > $OUT/patch.diff; wc -l $OUT/patch.diff
echo "== baseline with the change (guard off)"; WENCRY_REPO=$WT ./baseline_off.sh 2>&1 | tail -3 | tee $OUT/baseline.txt
if [ -x $WT/_seed/run_demo.sh ] || [ -f $WT/_seed/run_demo.sh ]; then
  echo "== demo WITH change"; (cd $WT/_seed && timeout 900 bash ./run_demo.sh > $OUT/demo_with.txt 2>&1; echo "rc=$?" | tee -a $OUT/demo_with.txt); tail -3 $OUT/demo_with.txt
  echo "== demo WITHOUT change"; git -C $WT apply -R $OUT/patch.diff && (cd $WT/_seed && timeout 900 bash ./run_demo.sh > $OUT/demo_without.txt 2>&1; echo "rc=$?" | tee -a $OUT/demo_without.txt); tail -3 $OUT/demo_without.txt
  git -C $WT apply $OUT/patch.diff
fi
echo "== checks"; tools/run_against.sh $WT $OUT/checks $PROPS | tee $OUT/checks.txt
