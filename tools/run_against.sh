#!/bin/bash
# usage: tools/run_against.sh <repo-dir> <outdir> [props...]   -- runs quick checks against another tree
# (a scratch worktree with a seeded change); evidence and replays go to <outdir>, never to /verif/evidence.
R="$1"; O="$2"; shift 2
mkdir -p "$O"
P="${@:-C01 C02 C03 C04 C05 C06 C07 C08 C09 C10 C11 C12 C13 C14 C15 C16 C17 C18}"
cd "$(dirname "$0")/.."
for p in $P; do
  s=$(date +%s)
  WENCRY_REPO="$R" VERIF_EVID_DIR="$O/evidence" VERIF_REPLAY_DIR="$O/replays" ./check run $p --tier "${TIER:-quick}" >"$O/$p.out" 2>"$O/$p.err"
  rc=$?
  echo "$p rc=$rc $(( $(date +%s) - s ))s viol=$(grep -c '^VIOLATION' "$O/$p.out") known=$(grep -c '^KNOWN-FINDING' "$O/$p.out")"
done
