#!/usr/bin/env python3
"""Self-validation: applies the 'Must catch' changes of DESIGN.md section 5 one at a time to a scratch worktree of /repo
(outside /repo and /verif) and runs the property's quick check against it.  Prints one line per change.
usage: tools/selfmutants.py [id-substring ...]"""
import os
import re
import subprocess
import sys
import time

HERE = os.path.dirname(os.path.dirname(os.path.abspath(__file__)))
WT = "/tmp/wt_self"
BG = "kernel/multi_aes/multi_buffergroup.cpp"
BGH = "kernel/multi_aes/multi_buffergroup.h"
M = [
    # id, props, file, old, new
    ("C01-nopad16", "C01 C02", BG, "  if (ispadding && (load != sum))\n  {", "  if (ispadding && (load != sum) && (tail != 0 || load == 0))\n  {"),
    ("C01-export-off1", "C01", BG, "size -= (padding >= 1 && padding <= 16) ? padding : 16;", "size -= (padding >= 1 && padding <= 16) ? padding - (padding == 16) : 16;"),
    ("C01-seek", "C01", "kernel/cry.cpp", "fseek(fin, FILE_TEXT_MARK(threads_num), SEEK_SET);", "fseek(fin, FILE_TEXT_MARK(threads_num > 8 ? 8 : threads_num), SEEK_SET);"),
    ("C01-tailmask", "C01 C02", BG, "tail = load & 0xf;", "tail = load & 0x7;"),
    ("C02-padding37", "C02 C08", "kernel/cry.h", "#define PADDING 38", "#define PADDING 37"),
    ("C02-tag-range68", "C02 C08 C05", "kernel/cry.cpp", "hmachandle.writeFileHmac(settings.get_htype(), out, key, FILE_IV_MARK, FILE_HMAC_MARK, fsize);", "hmachandle.writeFileHmac(settings.get_htype(), out, key, FILE_IV_MARK + 20, FILE_HMAC_MARK, fsize);"),
    ("C02-ivchain", "C02 C18", "kernel/fheader.cpp", "hm->getStringHash(iv + (20 * (i - 1)), 20, iv + (20 * i));", "hm->getStringHash(iv, 20, iv + (20 * i));"),
    ("C02-ctrwidth", "C02 C10", "kernel/multi_aes/aes/aesmode.cpp", "for (int i = 15; i >= 0; i--)\n    {\n      iv[i]++;", "for (int i = 15; i >= 8; i--)\n    {\n      iv[i]++;"),
    ("C03-setupdate-nolock", "C03 C14 C04", BG, "void bufferctrl::set_update()\n{\n  std::unique_lock<std::mutex> locker(lock);\n  if (state == READY)", "void bufferctrl::set_update()\n{\n  std::unique_lock<std::mutex> locker(lock, std::defer_lock);\n  if (state == READY)"),
    ("C03-d3-reintroduced", "C03 C04 C14", BG, "  ctrl[id].wait_ready();\n  if (!ctrl[id].cmpstate(READY))\n    return NULL;\n  u8_t *result", "  u8_t *result"),
    ("C03-waitupdate-accepts-ready", "C03 C14", BG, "while (state != UPDATING && state != EMPTY)", "while (state != UPDATING && state != EMPTY && state != READY)"),
    ("C03-turn-twice", "C03 C04 C14", BG, "    turn = (turn + 1) % size;\n  while", "    turn = (turn + (size > 2 ? 2 : 1)) % size;\n  while"),
    ("C04-no-notify-update", "C04", BG, "    state = UPDATING;\n    cv_update.notify_all();", "    state = UPDATING;"),
    ("C04-no-notify-ready", "C04", BG, "  cv_ready.notify_all();\n", "  if (load) cv_ready.notify_all();\n"),
    ("C04-while-to-if", "C04 C14", BG, "  while (state != READY && state != INV)\n    cv_ready.wait(locker);", "  if (state != READY && state != INV)\n    cv_ready.wait(locker);"),
    ("C04-livenum", "C04 C15", BG, "    state = INV;\n    live_num--;", "    state = INV;\n    if (cv_flag()) live_num--;"),
    ("C04-d2-reintroduced", "C04 C01 C12", BG, "    if (next == EOF)\n      readover = true;", "    if (next == EOF)\n      readover = false;"),
    ("C05-cmp-fewer", "C05 C08 C06", "kernel/fheader.cpp", "    for (int i = 0; i < length; ++i)\n        if (hmac_out[i] != hmac_res[i])", "    for (int i = 0; i < length - 1; ++i)\n        if (hmac_out[i] != hmac_res[i])"),
    ("C05-cmp-first8", "C05 C08 C06", "kernel/fheader.cpp", "    for (int i = 0; i < length; ++i)\n        if (hmac_out[i] != hmac_res[i])", "    for (int i = 0; i < 8; ++i)\n        if (hmac_out[i] != hmac_res[i])"),
    ("C05-range-after-ivs", "C05 C08 C02", "kernel/cry.cpp", "  fseek(fin, FILE_IV_MARK, SEEK_SET);\n  if (!hmachandle.cmphmac", "  fseek(fin, FILE_TEXT_MARK(threads_num), SEEK_SET);\n  if (!hmachandle.cmphmac"),
    ("C06-key8", "C06 C08", "kernel/fheader.cpp", "    memcpy(key1, key, 16);", "    memcpy(key1, key, 8);"),
    ("C06-decrypt-ungated", "C06 C05 C11 C12", "kernel/cry.cpp", "  if (res == 0)\n  {\n    // 准备初始化\n    resultprint->printtask(\"Preparing decrypt\");", "  if (res == 0 || res == 2)\n  {\n    // 准备初始化\n    resultprint->printtask(\"Preparing decrypt\");"),
    ("C07-thresh-gt56", "C07 C08", "kernel/hash/sha1.cpp", "if (final_loadsize >= 56)", "if (final_loadsize > 56)"),
    ("C07-md5-endian", "C07", "kernel/hash/md5.cpp", "temp[56 + i] = (u8_t)((bitlen >> (i << 3)));", "temp[56 + i] = (u8_t)((bitlen >> ((7 - i) << 3)));"),
    ("C07-extra-dropped", "C07 C08", "kernel/hash/hashbuffer.cpp", "  if (has_extra)\n  {\n    has_extra = false;", "  if (has_extra && total > 0)\n  {\n    has_extra = false;"),
    ("C07-sha256-k", "C07", "kernel/hash/sha256.cpp", "0x428a2f98", "0x428a2f99"),
    ("C08-ipad-opad", "C08 C02", "kernel/fheader.h", "static const u8_t ipad = 0x36, opad = 0x5c;", "static const u8_t ipad = 0x5c, opad = 0x36;"),
    ("C08-static-scratch", "C08", "kernel/fheader.cpp", "u8_t *key1 = new u8_t[block], *h1 = new u8_t[block], *h2 = new u8_t[block + length];", "static u8_t h2s[64 + 32];\n    u8_t *key1 = new u8_t[block], *h1 = new u8_t[block], *h2 = h2s;"),
    ("C07-sha256-static-w", "C07", "kernel/hash/sha256.cpp", "  u32_t temph[8];\n  memcpy(temph, h, sizeof(h));\n  for (u32_t i = 0; i < 64; ++i)", "  static u32_t temph[8];\n  memcpy(temph, h, sizeof(h));\n  for (u32_t i = 0; i < 64; ++i)"),
    ("C08-tag-at-9", "C08 C02", "kernel/cry.h", "#define FILE_HMAC_MARK 10", "#define FILE_HMAC_MARK 9"),
    ("C09-sbox", "C09", "kernel/multi_aes/aes/tab.h", "0x63, 0x7C, 0x77, 0x7B,", "0x63, 0x7C, 0x77, 0x7A,"),
    ("C09-rowshift", "C09", "kernel/multi_aes/aes/aes.cpp", "    w.g[i] = rrot(t, i << 3);", "    w.g[i] = rrot(t, (i == 3 ? 2 : i) << 3);"),
    ("C10-ctrinc-onebyte", "C10 C02", "kernel/multi_aes/aes/aesmode.cpp", "      if (iv[i] != 0)\n        break;", "      break;"),
    ("C10-cfb-dec-inverse", "C10 C01", "kernel/multi_aes/aes/aesmode.cpp", "class AesCFB_Dec : public AesEncrypt\n{\npublic:\n  AesCFB_Dec(u8_t *key, const u8_t *iv) : AesEncrypt(key, iv){};", "class AesCFB_Dec : public AesDecrypt\n{\npublic:\n  AesCFB_Dec(u8_t *key, const u8_t *iv) : AesDecrypt(key, iv){};"),
    ("C10-factory-dec3", "C10 C01", "kernel/multi_aes/aes/aesmode.cpp", "    case 3:\n      return new AesCFB_Dec(key, iv);", "    case 3:\n      return new AesCFB_Enc(key, iv);"),
    ("C11-magic-len", "C11 C12", "kernel/fheader.cpp", "    if (sum != 8)\n        return false;\n    return (mn == Magic_Num);", "    return (mn == Magic_Num);"),
    ("C11-shortread", "C11 C12 C13", "kernel/fheader.cpp", "    if (sum != len)\n        return NULL;\n    return hash;", "    return hash;"),
    ("C11-pad-validation", "C11 C05", BG, "size -= (padding >= 1 && padding <= 16) ? padding : 16;", "size -= padding;"),
    ("C11-mode-range", "C11 C12", "kernel/cry.cpp", "  if (header.getctype() > 4 || header.gethtype() > 2)\n    return 3;\n", ""),
    ("C12-verify-skips-magic", "C12 C11", "kernel/cry.cpp", "bool runcrypt::execute_verify(size_t fsize)\n{\n  if (fin == NULL)\n    return resultprint->printinv(0);", "bool runcrypt::execute_verify(size_t fsize)\n{\n  if (fin == NULL || fsize < 100)\n    return resultprint->printinv(0);"),
    ("C13-zero-tag-accepted", "C13 C05 C06", "kernel/fheader.cpp", "bool hmac::cmphmac(u8_t hashtype, u8_t *key, FILE *fp, const u8_t *hmac_out, size_t fsize)\n{\n    getres(hashtype, key, fp, fsize);", "bool hmac::cmphmac(u8_t hashtype, u8_t *key, FILE *fp, const u8_t *hmac_out, size_t fsize)\n{\n    getres(hashtype, key, fp, fsize);\n    { bool z = true; for (int i = 0; i < length; ++i) z = z && hmac_out[i] == 0; if (z) { delete[] hmac_res; return true; } }"),
    ("C15-no-del-instance", "C15", "kernel/cry.cpp", "    resultprint->printtask(\"Releasing allocated memory\");\n    buffergroup::del_instance();", "    resultprint->printtask(\"Releasing allocated memory\");"),
    ("C15-optind", "C15 C17", "valget/getopts.cpp", "    optind = 0; // 0 makes glibc", "    // optind = 0; // 0 makes glibc"),
    ("C16-tab-swap", "C16", "valget/base64/tab.h", "'W', 'X', 'Y', 'Z', 'a', 'b',", "'W', 'X', 'Y', 'Z', 'b', 'a',"),
    ("C16-validator-len", "C16 C17", "valget/base64/base64.cpp", "    if (len % 4 != 0) return false;\n    else if ((len / 4) * 3 - 2 != 16) return false;", "    if (len % 4 != 0) return false;\n    else if ((len / 4) * 3 - 2 < 16) return false;"),
    ("C16-tail-eq", "C16 C17", "valget/base64/base64.cpp", "    return tail == 2;", "    return tail >= 1;"),
    ("C17-exit0", "C17", "main.cpp", "  return flag ? 0 : -1;", "  return flag ? 0 : 0;"),
    ("C17-d-no-key-check", "C17", "valget/getopts.cpp", "        if (res->key == NULL)\n        {\n            strlog(\"Error :\", \"No key specified\");\n            delete res;\n            return NULL;\n        }\n", ""),
    ("C18-seed-ignored", "C18 C02", "kernel/fheader.cpp", "    hm->getStringHash(r_buf, strlen((const char *)r_buf), iv);", "    hm->getStringHash(r_buf, 0, iv);"),
    ("C18-ctr-reinit", "C18 C02 C10", "kernel/multi_aes/aes/aesmode.cpp", "    getXor(block, mask);\n    ctrInc();", "    getXor(block, mask);\n    ctrInc();\n    if (iv[15] == (u8_t)(initiv[15] + 2)) memcpy(iv, initiv, 16);"),
]


def sh(cmd, **kw):
    return subprocess.run(cmd, shell=True, capture_output=True, text=True, **kw)


def main():
    sel = sys.argv[1:]
    start = None
    if sel and sel[0].startswith("--from="):
        start = sel[0][7:]
        sel = sel[1:]
    if not os.path.isdir(WT):
        r = sh("git -C /repo worktree add -q --detach %s HEAD" % WT)
        if r.returncode:
            print(r.stderr)
            return 1
    out_root = "/tmp/selfmut"
    os.makedirs(out_root, exist_ok=True)
    for mid, props, f, old, new in M:
        if start:
            if mid != start:
                continue
            start = None
        if sel and not any(x in mid for x in sel):
            continue
        sh("git -C %s checkout -- ." % WT)
        p = os.path.join(WT, f)
        s = open(p).read()
        if s.count(old) < 1:
            print("%-28s PATTERN-NOT-FOUND in %s" % (mid, f))
            continue
        s = s.replace(old, new, 1)
        if mid == "C04-livenum":
            s = s.replace("if (cv_flag()) live_num--;", "if (load_flag_dummy) live_num--;").replace("u8_t bufferctrl::live_num = 0;", "u8_t bufferctrl::live_num = 0;\nstatic volatile bool load_flag_dummy = false;")
        open(p, "w").write(s)
        res = []
        for pr in props.split():
            t0 = time.time()
            o = os.path.join(out_root, mid)
            r = sh("WENCRY_REPO=%s VERIF_EVID_DIR=%s/evidence VERIF_REPLAY_DIR=%s/replays %s/check run %s > %s.%s.out 2> %s.%s.err" % (WT, o, o, HERE, pr, o, pr, o, pr))
            outp = open("%s.%s.out" % (o, pr)).read()
            nv = len(re.findall(r"^VIOLATION", outp, re.M))
            res.append("%s:%s(%d,%ds)" % (pr, {0: "MISSED", 1: "caught", 2: "inconclusive"}.get(r.returncode, "rc%d" % r.returncode), nv, time.time() - t0))
        print("%-28s %s" % (mid, "  ".join(res)))
        sys.stdout.flush()
    sh("git -C %s checkout -- ." % WT)
    return 0


if __name__ == "__main__":
    sys.exit(main())
