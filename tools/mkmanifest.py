#!/usr/bin/env python3
"""Regenerates /verif/MANIFEST.json from the table below and the checks actually registered in lib/props.py."""
import json
import os
import subprocess
import sys

HERE = os.path.dirname(os.path.dirname(os.path.abspath(__file__)))
sys.path.insert(0, os.path.join(HERE, "lib"))
import props  # noqa: E402

TB_API = ("Trusted: OpenSSL libcrypto 3 as reference (self-tested on published vectors each run), gcc-12 ASan/UBSan runtimes, "
          "the in-memory FILE shim, and that shrinking the chunk / refill constants (hooks H1/H2) preserves behaviour "
          "(thorough tiers add production-constant runs). Sampling, not proof.")
TB_SCHED = ("Trusted: the ~400-line cooperative scheduler shim (models mutex/condvar/thread exactly; validated by finding "
            "the pinned tree's races and staying silent on the repaired tree), event hooks H3, OpenSSL as reference. "
            "Random schedule exploration: no exhaustiveness over interleavings is claimed.")

T = {
    "C01": dict(cat="exploration", engine="E-API", technique="round-trip oracle on real threads under ASan+UBSan, every length across chunk boundaries (shrunk chunk hook)",
                text="Every plaintext length across five chunk boundaries x modes x thread counts is encrypted and decrypted by the real code under ASan+UBSan and compared byte for byte; keys, seeds and contents are sampled. Held-on-K-executions evidence, not a proof.",
                note=TB_API, ref="5/C01"),
    "C02": dict(cat="exploration", engine="E-API", technique="byte-for-byte differential against an OpenSSL-based executable specification of the file format, plus determinism / leak / input-intact monitors",
                text="Each generated encryption is compared byte for byte with an independent reference of the documented format; mismatches are attributed to a header field or body chunk.",
                note=TB_API, ref="5/C02"),
    "C03": dict(cat="exploration", engine="E-SCHED + E-TSAN", technique="seeded cooperative schedule fuzzing of the real pipeline with tagging cipher streams and an exactly-once offline checker; real-thread runs with injected delays",
                text="Tens of thousands of distinct seeded interleavings of the real pipeline, each checked for byte-identical output and for every block being transformed exactly once by its owner stream.",
                note=TB_SCHED, ref="5/C03"),
    "C04": dict(cat="exploration", engine="E-SCHED", technique="deadlock (empty enabled set) and bounded-progress detection under a deterministic scheduler incl. spurious wake-ups; logical all-threads-asleep detector for real threads",
                text="Termination is decided in its bounded form: no schedule explored reaches a state with no runnable thread, and every operation finishes within a step bound 1000x above observed maxima.",
                note=TB_SCHED + " Unbounded 'eventually' is not decidable from finite runs; restated as bounded progress.", ref="5/C04"),
    "C05": dict(cat="exploration", engine="E-API", technique="systematic mutation of genuine files (every bit, truncation, insertion, block/chunk swaps, header values) with the oracle ok => output == P",
                text="Every single-bit flip, truncation, extension, insertion/deletion and block swap of a set of small genuine files is verified and decrypted by the real code; acceptance with different plaintext is a violation.",
                note=TB_API, ref="5/C05"),
    "C06": dict(cat="exploration", engine="E-API", technique="wrong-key sweep (all 128 one-bit neighbours + structured and random keys) with a write-counting output stream",
                text="All one-bit neighbours of the key plus structured/random keys on genuine files; any acceptance or any byte reaching the output stream is a violation.",
                note=TB_API, ref="5/C06"),
    "C07": dict(cat="exploration", engine="E-API", technique="differential against libcrypto over every length across refill boundaries (shrunk refill hook), both entry points, plus >=2^29-byte synthetic streams",
                text="Every message length across four buffer refills, every residue mod 64, all three digests and both entry points are compared with OpenSSL; large synthetic streams cross the 2^32-bit counter.",
                note=TB_API, ref="5/C07"),
    "C08": dict(cat="exploration", engine="E-API", technique="HMAC differential against libcrypto over all lengths/positions, tag-compare bit-flip oracle, tag/zero-fill layout check on generated files",
                text="HMACs of every message length / start position / hash are compared with OpenSSL; every single-bit variant of a right tag must be rejected; file tags and zero fill are checked on generated files.",
                note=TB_API, ref="5/C08"),
    "C09": dict(cat="exploration", engine="E-API", technique="known-answer families + millions of random (key, block) pairs against libcrypto; exhaustive recomputation of S-box/inverse/log/antilog/Rcon tables and of the Gmul macro",
                text="Tables are checked exhaustively from first principles; the 2^256 (key, block) space is sampled (structured families + random) against OpenSSL with decrypt-inverts-encrypt on each pair.",
                note=TB_API, ref="5/C09"),
    "C10": dict(cat="exploration", engine="E-API", technique="lock-step block-by-block differential of the five mode objects against EVP contexts incl. counter-carry IVs and long streams",
                text="Streams of 0..300 blocks with random and carry-provoking IVs, and long streams past 2^16 / 2^24 blocks, compared block by block with OpenSSL; decryptors must invert.",
                note=TB_API, ref="5/C10"),
    "C11": dict(cat="exploration", engine="E-API (+ libFuzzer in thorough)", technique="hostile-input sweep under ASan+UBSan with crash/hang detection, write-counting output stream and an independent authenticity verdict",
                text="Arbitrary strings, every truncation and every header-byte value of genuine files are fed to verify/decrypt under ASan+UBSan; crashes, hangs, sanitizer reports, output on failure and oversized output are violations.",
                note=TB_API, ref="5/C11"),
    "C12": dict(cat="exploration", engine="E-API", technique="paired execution of verify and decrypt on the same corpus; input streams log every write attempt",
                text="Every corpus input (genuine, tampered, malformed, wrong key) goes through both entry points; any disagreement, any write by verify, or any write to an input stream is a violation.",
                note=TB_API, ref="5/C12"),
    "C13": dict(cat="fault_enumeration", engine="E-API (cookie stream)", technique="write-trace capture below stdio + exhaustive enumeration of every byte-prefix crash state, each presented to verify and decrypt; real SIGKILL injections in thorough",
                text="For each case the complete sequence of writes is recorded unbuffered and EVERY byte-granular prefix state is rebuilt and verified: exhaustive over crash points per case; cases sample inputs/modes.",
                note=TB_API + " Crash model: process death (prefix of the issue-ordered write stream); no reordering below the page cache.", ref="5/C13"),
    "C14": dict(cat="exploration", engine="E-SCHED + E-TSAN", technique="ownership monitor over hook events (shadow state updated under the code's own lock) on every explored schedule; ThreadSanitizer with address-classified reports on real threads with injected delays",
                text="An ownership state machine checks every hand-out, transform, load and export event on each explored schedule; ThreadSanitizer watches real-thread runs and only reports inside chunk buffers count.",
                note=TB_SCHED + " TSan only sees executed interleavings' happens-before; races on the control word are out of scope.", ref="5/C14"),
    "C15": dict(cat="exploration", engine="E-API", technique="random operation sequences in one process compared with the same operation run in a fresh process; quiescent-point invariants from hooks",
                text="Random sequences of mixed operations in one process; each result/output is compared with the same operation run alone in a fresh process, and live-buffer counters are checked at quiescent points.",
                note=TB_API, ref="5/C15"),
    "C16": dict(cat="exploration", engine="E-API", technique="exhaustive 3-byte/4-symbol group sweeps and random strings against an RFC 4648 reference; validator predicate with canary buffers and ASan on the real -k path",
                text="All 2^24 byte groups and 64^4 symbol groups (thorough) plus random strings are compared with an independent RFC 4648 codec; the validator is checked against must-accept / must-reject classes with canaries.",
                note=TB_API, ref="5/C16"),
    "C17": dict(cat="exploration", engine="E-CLI", technique="grid + random argument vectors against the real binary under ASan+UBSan with an effect-based oracle computed by the reference",
                text="Thousands of option vectors drive the real ASan-built binary; exit status is compared with the effect actually produced (reference decrypts/authenticates the files).",
                note="Trusted: OpenSSL-based reference tool, ASan/UBSan runtimes. Interactive prompt mode excluded as in the property.", ref="5/C17"),
    "C18": dict(cat="exploration", engine="E-API", technique="recovery of the IV each stream actually used from (key, P, C) with the reference; pairwise distinctness, seed dependence and keystream-reuse monitors",
                text="For multi-chunk files the IV each stream really started from is recovered with OpenSSL and compared across streams, header slots and seeds; keystream reuse is measured directly.",
                note=TB_API, ref="5/C18"),
}

HOOK_COMMITS = []
try:
    out = subprocess.run(["git", "-C", "/repo", "log", "--format=%H %s"], capture_output=True, text=True).stdout
    for line in out.splitlines():
        h, s = line.split(" ", 1)
        if s.startswith("verif hook"):
            HOOK_COMMITS.append(h)
except Exception:
    pass

checks = []
na = []
for pid in sorted(T):
    t = T[pid]
    if pid in props.REGISTRY:
        checks.append(dict(property_id=pid, quick_cmd="./check run %s --tier quick" % pid,
                           thorough_cmd="./check run %s --tier thorough" % pid,
                           evidence_file="/verif/evidence/%s.json" % pid,
                           replay_cmd_template="./check replay {path}", engine=t["engine"],
                           level_claimed=dict(category=t["cat"], text=t["text"], design_ref="DESIGN.md section " + t["ref"]),
                           level_note=t["note"], technique=t["technique"]))
    else:
        na.append(dict(property_id=pid, reason="check not built yet in this revision (runtime-monitoring design exists in DESIGN.md %s); not claimed until its check runs clean" % t["ref"]))

m = dict(version=1,
         setup_cmd="./setup.sh",
         hooks=dict(guard="WENCRY_VERIF",
                    enable="checks compile /repo's working tree directly with -DWENCRY_VERIF [-DWENCRY_VERIF_BUF_UNITS=n -DWENCRY_VERIF_HBUF_UNITS=n -DWENCRY_VERIF_EVENTS] -I/verif/hooks (see lib/wbuild.py)",
                    baseline_off_cmd="./baseline_off.sh",
                    source_commits=list(reversed(HOOK_COMMITS)), add_only=True),
         engines=[
             dict(name="E-REF", path="engines/ref/ref.hpp", serves_properties=sorted(T), kind_free_text="independent executable specification on OpenSSL libcrypto, self-tested on published vectors"),
             dict(name="E-API", path="engines/api", serves_properties=["C01", "C02", "C05", "C06", "C07", "C08", "C09", "C10", "C11", "C12", "C13", "C15", "C16", "C18"], kind_free_text="in-process harness over the real objects under ASan+UBSan, sharded, crash/hang aware"),
             dict(name="E-SCHED", path="engines/sched", serves_properties=["C03", "C04", "C14"], kind_free_text="seeded cooperative scheduler replacing std::mutex/condition_variable/thread by forced include; event log monitors"),
             dict(name="E-TSAN", path="engines/tsan", serves_properties=["C03", "C14"], kind_free_text="real threads under ThreadSanitizer with delay injection at hook points; address-classified reports"),
             dict(name="E-CLI", path="engines/cli", serves_properties=["C17"], kind_free_text="real binary under ASan+UBSan driven by argument-vector grids; effect-based oracle"),
         ],
         checks=checks,
         notes="Technique family: runtime monitoring and sanitizers. See DESIGN.md. known_findings.json lists open findings (suppressed by key) and fixed defects (suppress nothing).",
         not_applicable=na)
with open(os.path.join(HERE, "MANIFEST.json"), "w") as f:
    json.dump(m, f, indent=1)
print("MANIFEST.json: %d checks, %d not_applicable" % (len(checks), len(na)))
