#!/usr/bin/env python3
"""Applies every kept seeded change (seeded/<id>/patch.diff) to a fresh scratch worktree of /repo's HEAD, runs the quick
checks named in its meta.json against it, and records the outcome in meta.json ("last_sweep").
usage: tools/seeded_sweep.py [id ...]"""
import json
import os
import re
import subprocess
import sys
import time

HERE = os.path.dirname(os.path.dirname(os.path.abspath(__file__)))
WT = "/tmp/wt_seeded"


def sh(cmd):
    return subprocess.run(cmd, shell=True, capture_output=True, text=True)


def main():
    ids = sys.argv[1:] or sorted(os.listdir(os.path.join(HERE, "seeded")))
    sh("git -C /repo worktree remove --force %s" % WT)
    r = sh("git -C /repo worktree add -q --detach %s HEAD" % WT)
    if r.returncode:
        print(r.stderr)
        return 1
    head = sh("git -C /repo rev-parse --short HEAD").stdout.strip()
    rows = []
    for sid in ids:
        d = os.path.join(HERE, "seeded", sid)
        mp = os.path.join(d, "meta.json")
        if not os.path.exists(mp):
            continue
        meta = json.load(open(mp))
        sh("git -C %s checkout -- ." % WT)
        r = sh("git -C %s apply %s/patch.diff" % (WT, d))
        if r.returncode:
            print("%-6s PATCH DOES NOT APPLY to %s: %s" % (sid, head, r.stderr.strip()[:200]))
            continue
        props = list(meta.get("quick_checks", {}).keys()) or [meta["breaks_property"]]
        if meta["breaks_property"] not in props:
            props.insert(0, meta["breaks_property"])
        res = {}
        if os.environ.get("OWN_ONLY"):  # quick re-check of the change's own property; other columns keep their last result
            res = dict((meta.get("last_sweep") or {}).get("results") or {})
            props = [meta["breaks_property"]]
        for p in props:
            t0 = time.time()
            o = "/tmp/seeded_sweep/%s" % sid
            os.makedirs(o, exist_ok=True)
            rr = sh("cd %s && WENCRY_REPO=%s VERIF_EVID_DIR=%s/evidence VERIF_REPLAY_DIR=%s/replays ./check run %s > %s/%s.out 2> %s/%s.err" % (HERE, WT, o, o, p, o, p, o, p))
            keys = re.findall(r"violation key=(.*?) x\d+:", open("%s/%s.err" % (o, p)).read())
            res[p] = dict(exit=rr.returncode, seconds=int(time.time() - t0), violation_keys=keys[:6])
        meta["last_sweep"] = dict(repo_head=head, results=res)
        json.dump(meta, open(mp, "w"), indent=1)
        own = res.get(meta["breaks_property"], {})
        rows.append((sid, meta["breaks_property"], own.get("exit"), " ".join("%s:%s" % (p, {0: "silent", 1: "CAUGHT", 2: "inconcl"}.get(v["exit"], v["exit"])) for p, v in res.items())))
        print("%-6s breaks %s -> %s" % (sid, meta["breaks_property"], rows[-1][3]))
        sys.stdout.flush()
    sh("git -C /repo worktree remove --force %s" % WT)
    return 0


if __name__ == "__main__":
    sys.exit(main())
