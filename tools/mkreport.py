#!/usr/bin/env python3
"""Regenerates the machine-made tables of DESIGN.md section 11 (between the AUTO markers) from seeded/*/meta.json,
known_findings.json and tools/selfmutants results (/tmp/selfmut_summary.txt if present, else the stored copy)."""
import glob
import json
import os
import re
import shutil

HERE = os.path.dirname(os.path.dirname(os.path.abspath(__file__)))
V = {0: "silent", 1: "**caught**", 2: "undecided"}


def seeded_table():
    out = ["| id | breaks | what it needs in order to manifest | quick checks run against it (HEAD + patch) |", "|---|---|---|---|"]
    for d in sorted(glob.glob(os.path.join(HERE, "seeded", "*"))):
        mp = os.path.join(d, "meta.json")
        if not os.path.exists(mp):
            continue
        m = json.load(open(mp))
        res = (m.get("last_sweep") or {}).get("results") or m.get("quick_checks", {})
        cells = " ".join("%s:%s" % (p, V.get(v["exit"], v["exit"])) for p, v in res.items())
        out.append("| %s | %s | %s | %s |" % (m["id"], m["breaks_property"], m["needs_to_manifest"].replace("|", "/"), cells))
    return "\n".join(out)


def strengthened():
    out = []
    for d in sorted(glob.glob(os.path.join(HERE, "seeded", "*"))):
        mp = os.path.join(d, "meta.json")
        if os.path.exists(mp):
            m = json.load(open(mp))
            c = m.get("caught_by", "")
            if "only" in c or "since" in c or "after" in c:
                out.append("* **%s** (%s): %s" % (m["id"], m["breaks_property"], c))
    return "\n".join(out)


def fixed_table():
    k = json.load(open(os.path.join(HERE, "known_findings.json")))["findings"]
    out = ["| status | property | commit | key | what failed |", "|---|---|---|---|---|"]
    for f in k:
        out.append("| %s | %s | %s | `%s` | %s |" % (f["status"], f["property"], (f.get("commit") or "")[:7], f["key"].replace("|", "\\|"), f["what"].replace("|", "/")))
    return "\n".join(out)


def selfmut_table():
    src = "/tmp/selfmut_summary.txt"
    dst = os.path.join(HERE, "tools", "selfmutants_last.txt")
    if os.path.exists(src) and os.path.getsize(src) > 500:
        shutil.copy(src, dst)
    if not os.path.exists(dst):
        return "(not run yet)"
    rows = {}
    for line in open(dst):
        m = re.match(r"(\S+)\s+(.*)", line.strip())
        if m and ":" in m.group(2):
            rows[m.group(1)] = m.group(2)
    out = ["| change | result per quick check: verdict(VIOLATION lines, seconds) |", "|---|---|"]
    for k, v in rows.items():
        out.append("| %s | %s |" % (k, v.replace("caught", "**caught**")))
    return "\n".join(out)


def main():
    p = os.path.join(HERE, "DESIGN.md")
    s = open(p).read()
    for name, fn in (("SEEDED", seeded_table), ("STRENGTHENED", strengthened), ("FINDINGS", fixed_table), ("SELFMUT", selfmut_table)):
        a, b = "<!-- AUTO:%s -->" % name, "<!-- /AUTO:%s -->" % name
        if a in s and b in s:
            i, j = s.index(a) + len(a), s.index(b)
            s = s[:i] + "\n" + fn() + "\n" + s[j:]
    open(p, "w").write(s)


if __name__ == "__main__":
    main()
