#!/usr/bin/env python3
"""Setup-time self test of the reference: C++/OpenSSL vs published vectors, then vs Python's stdlib."""
import base64, hashlib, hmac, os, random, subprocess, sys
HERE = os.path.dirname(os.path.dirname(os.path.abspath(__file__)))
sys.path.insert(0, os.path.join(HERE, "lib"))
import wbuild

def reftool():
    return wbuild.build("reftool", "plain", ["engines/ref/reftool.cpp"], repo_srcs=[])

def main():
    rt = reftool()
    r = subprocess.run([rt, "selftest"], capture_output=True, text=True)
    if r.returncode != 0:
        print("setup: reference self-test failed:\n" + r.stdout + r.stderr)
        return 2
    rnd = random.Random(7)
    names = ["sha1", "md5", "sha256"]
    n = 0
    for _ in range(60):
        m = bytes(rnd.randrange(256) for _ in range(rnd.choice([0, 1, 55, 56, 63, 64, 65, 119, 120, 128, 500])))
        k = bytes(rnd.randrange(256) for _ in range(16))
        for h in range(3):
            a = subprocess.run([rt, "digest", str(h), m.hex()], capture_output=True, text=True).stdout.strip()
            assert a == hashlib.new(names[h], m).hexdigest(), ("digest", h, m.hex())
            b = subprocess.run([rt, "hmac", str(h), k.hex(), m.hex()], capture_output=True, text=True).stdout.strip()
            assert b == hmac.new(k, m, names[h]).hexdigest(), ("hmac", h)
            n += 2
        e = subprocess.run([rt, "b64enc", m.hex()], capture_output=True, text=True).stdout.strip()
        assert e == base64.b64encode(m).decode(), "b64enc"
        d = subprocess.run([rt, "b64dec", e], capture_output=True, text=True).stdout.strip() if e else ""
        assert d == m.hex(), "b64dec"
        n += 2
    print("setup: reference agrees with published vectors and with python stdlib on %d comparisons" % n)
    return 0

if __name__ == "__main__":
    sys.exit(main())
