#!/bin/bash
# Regenerates every evidence file from quick checks on /repo itself, validates them, refreshes the generated tables.
cd "$(dirname "$0")/.."
fail=0
for p in C01 C02 C03 C04 C05 C06 C07 C08 C09 C10 C11 C12 C13 C14 C15 C16 C17 C18; do
  s=$(date +%s)
  VERIF_SEED=${VERIF_SEED:-1} ./check run $p --tier quick > /tmp/final_$p.out 2> /tmp/final_$p.err; rc=$?
  echo "$p rc=$rc $(( $(date +%s) - s ))s $(grep -c '^VIOLATION' /tmp/final_$p.out) violations, $(grep -c '^KNOWN-FINDING' /tmp/final_$p.out) known"
  [ $rc -ne 0 ] && fail=1
done
python3-vt - <<'PY'
import json, jsonschema, glob
sch = json.load(open('/root/.vp/EVIDENCE.schema.json'))
for f in sorted(glob.glob('/verif/evidence/C*.json')):
    jsonschema.validate(json.load(open(f)), sch)
jsonschema.validate(json.load(open('/verif/MANIFEST.json')), json.load(open('/root/.vp/MANIFEST.schema.json')))
print("evidence + manifest valid:", len(glob.glob('/verif/evidence/C*.json')), "files")
PY
python3 tools/mkmanifest.py
python3 tools/mkreport.py
exit $fail
