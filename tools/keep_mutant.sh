#!/bin/bash
# usage: tools/keep_mutant.sh <seed-id> <worktree> <property> "<needs>" "<caught-by summary>"
ID="$1"; WT="$2"; PROP="$3"; NEEDS="$4"; CAUGHT="$5"
cd "$(dirname "$0")/.."
D=seeded/$ID; mkdir -p $D
cp /tmp/vet_$ID/patch.diff $D/patch.diff
for f in demo.cpp run_demo.sh README.md demo.sh demo.py; do [ -f $WT/_seed/$f ] && cp $WT/_seed/$f $D/; done
python3 - "$ID" "$PROP" "$NEEDS" "$CAUGHT" <<'PY'
import json,sys,os,re
id_,prop,needs,caught=sys.argv[1:5]
vet='/tmp/vet_'+id_
def rd(p):
    try: return open(os.path.join(vet,p)).read()
    except OSError: return ''
checks={}
for line in rd('checks.txt').splitlines():
    m=re.match(r'(C\d+) rc=(\d+) (\d+)s viol=(\d+) known=(\d+)',line)
    if m: checks[m.group(1)]=dict(exit=int(m.group(2)),seconds=int(m.group(3)),violation_lines=int(m.group(4)))
keys={}
for p in checks:
    ks=re.findall(r'violation key=(.*?) x(\d+):',rd('checks/%s.err'%p))
    keys[p]=[k for k,_ in ks][:8]
meta=dict(id=id_,breaks_property=prop,needs_to_manifest=needs,
 confirmed=dict(compiles_and_stable_tests=rd('baseline.txt').strip().splitlines()[-1:] ,demo_with_change=rd('demo_with.txt').strip().splitlines()[-2:],demo_without_change=rd('demo_without.txt').strip().splitlines()[-2:]),
 ran="tools/vet_mutant.sh: baseline_off.sh on the changed tree, the demonstration with and without the patch, then quick checks via tools/run_against.sh (WENCRY_REPO=<scratch worktree>)",
 quick_checks=checks,violation_keys=keys,caught_by=caught)
json.dump(meta,open('seeded/%s/meta.json'%id_,'w'),indent=1)
print(json.dumps(meta,indent=1)[:1500])
PY
