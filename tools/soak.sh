#!/bin/bash
# usage: tools/soak.sh "<seeds>" [props...]  -- quick checks on /repo across seeds; evidence goes to a scratch dir
SEEDS="$1"; shift
P="${@:-C01 C02 C03 C04 C05 C06 C07 C08 C09 C10 C11 C12 C13 C14 C15 C16 C17 C18}"
cd "$(dirname "$0")/.."
O=/tmp/soak; mkdir -p $O
for s in $SEEDS; do for p in $P; do
  t=$(date +%s)
  VERIF_SEED=$s VERIF_EVID_DIR=$O/evidence VERIF_REPLAY_DIR=$O/replays ./check run $p --tier "${TIER:-quick}" >$O/$p.s$s.out 2>$O/$p.s$s.err
  rc=$?
  echo "seed=$s $p rc=$rc $(( $(date +%s) - t ))s viol=$(grep -c '^VIOLATION' $O/$p.s$s.out)"
done; done
